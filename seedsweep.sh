#!/bin/bash
# usage: seedsweep.sh [name-pattern]  — regression over the seeded changes: every /verif/seeded/<id>-x/patch.diff
# is applied to a scratch worktree of /repo's HEAD and the property's quick check is run against it.
# A seed is CAUGHT when the check exits 1 with a VIOLATION line, MISSED when it exits 0.
set -u
export GOFLAGS=-mod=mod GOPROXY=off GOSUMDB=off GOTOOLCHAIN=local
pat=${1:-}
wt=$(mktemp -d /tmp/seedsweep-XXXX); rmdir $wt
git -C /repo worktree add --detach $wt HEAD >/dev/null 2>&1 || exit 2
trap 'git -C /repo worktree remove --force $wt >/dev/null 2>&1; rm -rf $wt' EXIT
missed=0
for d in /verif/seeded/*${pat}*/; do
  name=$(basename $d); prop=${name%%-*}
  [ -f $d/patch.diff ] || continue
  if ! git -C $wt apply --check $d/patch.diff 2>/dev/null; then echo "$name NOT-APPLICABLE (patch no longer applies to HEAD)"; continue; fi
  git -C $wt apply $d/patch.diff
  out=$(/verif/bin/govc -repo $wt -specs /verif/specs -prop $prop -tier quick -out /tmp/seedsweep-ev.json -replays /tmp/seedsweep-replays 2>&1); rc=$?
  git -C $wt checkout -q -- . ; git -C $wt clean -fdq
  first=$(echo "$out" | grep -m1 "failed obligation\|baseline obligation" | cut -c1-150)
  if [ $rc -eq 1 ] && echo "$out" | grep -q "^VIOLATION"; then echo "$name CAUGHT $first"; else echo "$name MISSED rc=$rc"; missed=$((missed+1)); fi
done
rm -rf /tmp/seedsweep-ev.json /tmp/seedsweep-replays
echo "missed=$missed"
