#!/bin/bash
# development helper: run the quick (or given) tier of every claimed property, print one line each
tier=${1:-quick}
for p in $(python3 -c "import json;print(' '.join(x['property_id'] for x in json.load(open('/verif/MANIFEST.json'))['checks']))" 2>/dev/null); do
  out=$(/verif/check $p $tier 2>&1); rc=$?
  echo "$p rc=$rc $(echo "$out" | grep -E '^property' | cut -c1-140)"
  echo "$out" | grep -E "VIOLATION|UNDECIDED|COVER-LOST|TOOL-ERROR" | head -5
done
