//go:build verif_specs

// Assumed (trusted, never proved) contracts for standard-library and
// third-party functions, in the same //@ syntax as the contract files in /repo.
package specs

//@ func bytes.Equal
//@ pure
//@ ensures result == bytes.Equal(b, a)
