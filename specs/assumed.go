//go:build verif_specs

// Assumed (trusted, never proved) contracts for standard-library and
// third-party functions, in the same //@ syntax as the contract files in /repo.
package specs

//@ func bytes.Equal
//@ pure
//@ ensures result == bytes.Equal(b, a)

// errors: values created by errors.New are "plain" (no wrapping chain).
//@ spec plainErr(e error) bool

//@ func errors.Is
//@ pure
//@ ensures err == target ==> result
//@ ensures plainErr(err) && err != target ==> !result
//@ ensures err == nil && target != nil ==> !result

//@ func errors.New
//@ assigns nothing
//@ ensures result != nil && plainErr(result)

//@ func fmt.Errorf
//@ assigns nothing
//@ ensures result != nil


// ---- blst (cgo): assumed not to panic and not to touch Go-visible memory ---------------
//@ func github.com/supranational/blst/bindings/go.*
//@ assigns nothing

// ---- encoding/binary big-endian helpers -------------------------------------------------
//@ func encoding/binary.(bigEndian).PutUint32
//@ requires[room] len(b) >= 4
//@ assigns b[0:4]
//@ func encoding/binary.(bigEndian).PutUint64
//@ requires[room] len(b) >= 8
//@ assigns b[0:8]
//@ func encoding/binary.(bigEndian).PutUint16
//@ requires[room] len(b) >= 2
//@ assigns b[0:2]
//@ func encoding/binary.(bigEndian).Uint32
//@ requires[room] len(b) >= 4
//@ pure
//@ func encoding/binary.(bigEndian).Uint64
//@ requires[room] len(b) >= 8
//@ pure
//@ func encoding/binary.(bigEndian).Uint16
//@ requires[room] len(b) >= 2
//@ pure
// lexicographical comparison: a total preorder on byte strings (antisymmetry of the sign)
//@ func bytes.Compare
//@ pure
//@ ensures (result < 0) == (bytes.Compare(b, a) > 0) && (result == 0) == (bytes.Compare(b, a) == 0)

// a byte string is at least as long as any of its prefixes
//@ func bytes.HasPrefix
//@ pure
//@ ensures result ==> len(s) >= len(prefix)

// ---- sync: lock ghost state (re-entrancy of the current goroutine only) ---------------------
//@ ghost wheld(m *sync.RWMutex) int
//@ ghost rheld(m *sync.RWMutex) int
//@ ghost mheld(m *sync.Mutex) int

//@ func sync.(*RWMutex).Lock
//@ requires[not-held-by-this-goroutine] wheld(rw) == 0 && rheld(rw) == 0
//@ assigns wheld(rw)
//@ ensures wheld(rw) == 1
//@ func sync.(*RWMutex).Unlock
//@ requires[write-locked] wheld(rw) == 1
//@ assigns wheld(rw)
//@ ensures wheld(rw) == 0
// recursive read locking is prohibited by sync.RWMutex (a writer arriving in between deadlocks both)
//@ func sync.(*RWMutex).RLock
//@ requires[no-write-lock-held-by-this-goroutine] wheld(rw) == 0
//@ requires[no-recursive-read-lock] rheld(rw) == 0
//@ assigns rheld(rw)
//@ ensures rheld(rw) == old(rheld(rw))+1
//@ func sync.(*RWMutex).RUnlock
//@ requires[read-locked] rheld(rw) > 0
//@ assigns rheld(rw)
//@ ensures rheld(rw) == old(rheld(rw))-1
//@ func sync.(*Mutex).Lock
//@ requires[not-held-by-this-goroutine] mheld(m) == 0
//@ assigns mheld(m)
//@ ensures mheld(m) == 1
//@ func sync.(*Mutex).Unlock
//@ requires[locked] mheld(m) == 1
//@ assigns mheld(m)
//@ ensures mheld(m) == 0

// ---- time -------------------------------------------------------------------------------------
//@ ghost lastNowUnix() int64
//@ func time.Now
//@ assigns lastNowUnix()
//@ records lastNowUnix() == result.Unix()
// Unix seconds of a time value; the most recent reading is kept in ghost state. The clock is
// assumed not to be set before 1970.
//@ func time.(Time).Unix
//@ pure
//@ ensures result >= 0 && result < 1<<62
//@ func time.(Duration).Seconds
//@ pure
//@ ensures d > 0 ==> result >= 0.0 && result <= 9300000000.0

// ---- net / multiaddr ------------------------------------------------------------------------------
//@ spec ipString(ip net.IP) string
//@ spec ipOf(addr multiaddr.Multiaddr) string
//@ spec toIPFails(addr multiaddr.Multiaddr) bool
//@ func github.com/multiformats/go-multiaddr/net.ToIP
//@ assigns nothing
//@ ensures result1 == nil ==> ipString(result0) == ipOf(addr)
//@ ensures (result1 != nil) == toIPFails(addr)
//@ func net.(IP).String
//@ pure
//@ ensures result == ipString(ip)
//@ func net.ParseIP
//@ assigns nothing

// ---- libp2p ---------------------------------------------------------------------------------------
//@ iface github.com/libp2p/go-libp2p/core/network.ConnMultiaddrs.RemoteMultiaddr
//@ pure
// RLocker(): a Locker whose Lock/Unlock are RLock/RUnlock of the same mutex
//@ spec rlockerOf(l sync.Locker) *sync.RWMutex
//@ func sync.(*RWMutex).RLocker
//@ pure
//@ ensures rlockerOf(result) == rw
//@ iface sync.Locker.Lock
//@ requires[no-write-lock-held-by-this-goroutine] wheld(rlockerOf(recv)) == 0
//@ requires[no-recursive-read-lock] rheld(rlockerOf(recv)) == 0
//@ assigns rheld(rlockerOf(recv))
//@ ensures rheld(rlockerOf(recv)) == old(rheld(rlockerOf(recv)))+1
//@ iface sync.Locker.Unlock
//@ requires[read-locked] rheld(rlockerOf(recv)) > 0
//@ assigns rheld(rlockerOf(recv))
//@ ensures rheld(rlockerOf(recv)) == old(rheld(rlockerOf(recv)))-1
//@ func sync.(*WaitGroup).Done
//@ assigns nothing
//@ func sync.(*WaitGroup).Add
//@ assigns nothing
//@ func sync.(*WaitGroup).Wait
//@ assigns nothing
//@ iface context.Context.Done
//@ pure

// ---- hashing ------------------------------------------------------------------------------------------

// ---- unicode -------------------------------------------------------------------------------------------
//@ func unicode/utf8.Valid
//@ pure

// Unicode normalisation (golang.org/x/text): an uninterpreted function of the form and the string
//@ spec normForm(f int, s string) string
//@ func golang.org/x/text/unicode/norm.(Form).String
//@ assigns nothing
//@ ensures result == normForm(int(f), s)
//@ func golang.org/x/text/unicode/norm.(Form).IsNormal
//@ assigns nothing
