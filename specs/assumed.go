//go:build verif_specs

// Assumed (trusted, never proved) contracts for standard-library and
// third-party functions, in the same //@ syntax as the contract files in /repo.
package specs

//@ func bytes.Equal
//@ pure
//@ ensures result == bytes.Equal(b, a)

// errors: values created by errors.New are "plain" (no wrapping chain).
//@ spec plainErr(e error) bool

//@ func errors.Is
//@ pure
//@ ensures err == target ==> result
//@ ensures plainErr(err) && err != target ==> !result
//@ ensures err == nil && target != nil ==> !result

//@ func errors.New
//@ assigns nothing
//@ ensures result != nil && plainErr(result)

//@ func fmt.Errorf
//@ assigns nothing
//@ ensures result != nil

//@ func time.(Time).Unix
//@ pure
