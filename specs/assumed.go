//go:build verif_specs

// Assumed (trusted, never proved) contracts for standard-library and
// third-party functions, in the same //@ syntax as the contract files in /repo.
package specs

//@ func bytes.Equal
//@ pure
//@ ensures result == bytes.Equal(b, a)

// errors: values created by errors.New are "plain" (no wrapping chain).
//@ spec plainErr(e error) bool

//@ func errors.Is
//@ pure
//@ ensures err == target ==> result
//@ ensures plainErr(err) && err != target ==> !result
//@ ensures err == nil && target != nil ==> !result

//@ func errors.New
//@ assigns nothing
//@ ensures result != nil && plainErr(result)

//@ func fmt.Errorf
//@ assigns nothing
//@ ensures result != nil


// ---- blst (cgo): assumed not to panic and not to touch Go-visible memory ---------------
//@ func github.com/supranational/blst/bindings/go.*
//@ assigns nothing

// ---- encoding/binary big-endian helpers -------------------------------------------------
//@ func encoding/binary.(bigEndian).PutUint32
//@ requires[room] len(b) >= 4
//@ assigns b[0:4]
//@ func encoding/binary.(bigEndian).PutUint64
//@ requires[room] len(b) >= 8
//@ assigns b[0:8]
//@ func encoding/binary.(bigEndian).PutUint16
//@ requires[room] len(b) >= 2
//@ assigns b[0:2]
//@ func encoding/binary.(bigEndian).Uint32
//@ requires[room] len(b) >= 4
//@ pure
//@ func encoding/binary.(bigEndian).Uint64
//@ requires[room] len(b) >= 8
//@ pure
//@ func encoding/binary.(bigEndian).Uint16
//@ requires[room] len(b) >= 2
//@ pure
// lexicographic order on byte strings: cmpS(a, b) is the sign of the comparison (engine builtin: strings are ranked
// by an injective order embedding into the reals, so the order axioms are arithmetic).  bytes.Compare returns it.
//@ func bytes.Compare
//@ pure
//@ ensures (result < 0) == (bytes.Compare(b, a) > 0) && (result == 0) == (bytes.Compare(b, a) == 0)
//@ ensures[by-content] result == cmpS(string(a), string(b)) && (result == 0) == (string(a) == string(b))

// ---- pebble iterators: a cursor over a fixed, ordered key space -------------------------------------------
// itHas(it, k): key k belongs to the key space the iterator ranges over (fixed for the iterator's lifetime).
// itValid / itKey: whether the cursor is on an entry, and that entry's key.  A seek positions the cursor on the
// nearest key on the requested side; Next / Prev move to the adjacent key (no key of the space lies strictly
// between the old and the new position) and keep every bound of the old position.  (Assumed; pebble is not verified.)
//@ spec itHas(it *pebble.Iterator, k string) bool
//@ ghost itValid(it *pebble.Iterator) bool
//@ ghost itKey(it *pebble.Iterator) string
// a new iterator ranges over the stored keys inside the bounds of its options (lower inclusive - an absent lower bound is
// the empty string, below every key -, upper exclusive)
//@ func github.com/cockroachdb/pebble.(*DB).NewIter
//@ assigns nothing
//@ ensures result != nil && fresh(result)
//@ ensures[key-space-inside-the-bounds] o != nil ==> forallT(k, string, itHas(result, k) ==> cmpS(k, string(o.LowerBound)) >= 0 && (o.UpperBound == nil || cmpS(k, string(o.UpperBound)) < 0))
//@ func github.com/cockroachdb/pebble.(*Snapshot).NewIter
//@ assigns nothing
//@ ensures result != nil && fresh(result)
//@ ensures[key-space-inside-the-bounds] o != nil ==> forallT(k, string, itHas(result, k) ==> cmpS(k, string(o.LowerBound)) >= 0 && (o.UpperBound == nil || cmpS(k, string(o.UpperBound)) < 0))
//@ func github.com/cockroachdb/pebble.(*Iterator).SeekGE
//@ assigns itValid(i), itKey(i)
//@ ensures result == itValid(i) && (result ==> cmpS(itKey(i), string(key)) >= 0 && itHas(i, itKey(i)))
//@ ensures[least-at-or-above] forallT(k, string, itHas(i, k) && cmpS(k, string(key)) >= 0 ==> result && cmpS(k, itKey(i)) >= 0)
//@ func github.com/cockroachdb/pebble.(*Iterator).SeekLT
//@ assigns itValid(i), itKey(i)
//@ ensures result == itValid(i) && (result ==> cmpS(itKey(i), string(key)) < 0 && itHas(i, itKey(i)))
//@ ensures[greatest-below] forallT(k, string, itHas(i, k) && cmpS(k, string(key)) < 0 ==> result && cmpS(k, itKey(i)) <= 0)
//@ func github.com/cockroachdb/pebble.(*Iterator).First
//@ assigns itValid(i), itKey(i)
//@ ensures result == itValid(i) && (result ==> itHas(i, itKey(i)))
//@ ensures[least] forallT(k, string, itHas(i, k) ==> result && cmpS(k, itKey(i)) >= 0)
//@ func github.com/cockroachdb/pebble.(*Iterator).Last
//@ assigns itValid(i), itKey(i)
//@ ensures result == itValid(i) && (result ==> itHas(i, itKey(i)))
//@ ensures[greatest] forallT(k, string, itHas(i, k) ==> result && cmpS(k, itKey(i)) <= 0)
//@ func github.com/cockroachdb/pebble.(*Iterator).Next
//@ assigns itValid(i), itKey(i)
//@ ensures result == itValid(i) && (result ==> itHas(i, itKey(i))) && (result && old(itValid(i)) ==> cmpS(itKey(i), old(itKey(i))) > 0)
//@ ensures[lower-bounds-kept] forallT(f, string, result && old(itValid(i)) && old(cmpS(itKey(i), f)) >= 0 ==> cmpS(itKey(i), f) > 0)
//@ ensures[adjacent] forallT(k, string, itHas(i, k) && old(itValid(i)) ==> cmpS(k, old(itKey(i))) <= 0 || (result && cmpS(k, itKey(i)) >= 0))
//@ func github.com/cockroachdb/pebble.(*Iterator).Prev
//@ assigns itValid(i), itKey(i)
//@ ensures result == itValid(i) && (result ==> itHas(i, itKey(i))) && (result && old(itValid(i)) ==> cmpS(itKey(i), old(itKey(i))) < 0)
//@ ensures[upper-bounds-kept] forallT(f, string, result && old(itValid(i)) && old(cmpS(itKey(i), f)) <= 0 ==> cmpS(itKey(i), f) < 0)
//@ ensures[adjacent] forallT(k, string, itHas(i, k) && old(itValid(i)) ==> cmpS(k, old(itKey(i))) >= 0 || (result && cmpS(k, itKey(i)) <= 0))
//@ func github.com/cockroachdb/pebble.(*Iterator).Valid
//@ assigns nothing
//@ ensures result == itValid(i)
//@ func github.com/cockroachdb/pebble.(*Iterator).Key
//@ assigns nothing
//@ ensures itValid(i) ==> string(result) == itKey(i)
//@ func github.com/cockroachdb/pebble.(*Iterator).Value
//@ assigns nothing
//@ func github.com/cockroachdb/pebble.(*Iterator).Close
//@ assigns itValid(i), itKey(i)

// a byte string is at least as long as any of its prefixes
// hasPrefixS(s, p): the byte string s starts with p
//@ spec hasPrefixS(s string, p string) bool
//@ func bytes.HasPrefix
//@ pure
//@ ensures result ==> len(s) >= len(prefix)
//@ ensures[by-content] result == hasPrefixS(string(s), string(prefix))

// ---- sync: lock ghost state (re-entrancy of the current goroutine only) ---------------------
//@ ghost wheld(m *sync.RWMutex) int
//@ ghost rheld(m *sync.RWMutex) int
//@ ghost mheld(m *sync.Mutex) int

//@ func sync.(*RWMutex).Lock
//@ requires[not-held-by-this-goroutine] wheld(rw) == 0 && rheld(rw) == 0
//@ assigns wheld(rw)
//@ ensures wheld(rw) == 1
//@ func sync.(*RWMutex).Unlock
//@ requires[write-locked] wheld(rw) == 1
//@ assigns wheld(rw)
//@ ensures wheld(rw) == 0
// recursive read locking is prohibited by sync.RWMutex (a writer arriving in between deadlocks both)
//@ func sync.(*RWMutex).RLock
//@ requires[no-write-lock-held-by-this-goroutine] wheld(rw) == 0
//@ requires[no-recursive-read-lock] rheld(rw) == 0
//@ assigns rheld(rw)
//@ ensures rheld(rw) == old(rheld(rw))+1
//@ func sync.(*RWMutex).RUnlock
//@ requires[read-locked] rheld(rw) > 0
//@ assigns rheld(rw)
//@ ensures rheld(rw) == old(rheld(rw))-1
//@ func sync.(*Mutex).Lock
//@ requires[not-held-by-this-goroutine] mheld(m) == 0
//@ assigns mheld(m)
//@ ensures mheld(m) == 1
//@ func sync.(*Mutex).Unlock
//@ requires[locked] mheld(m) == 1
//@ assigns mheld(m)
//@ ensures mheld(m) == 0

// ---- time -------------------------------------------------------------------------------------
//@ ghost lastNowUnix() int64
//@ func time.Now
//@ assigns lastNowUnix()
//@ records lastNowUnix() == result.Unix()
// Unix seconds of a time value; the most recent reading is kept in ghost state. The clock is
// assumed not to be set before 1970.
//@ func time.(Time).Unix
//@ pure
//@ ensures result >= 0 && result < 1<<62
//@ func time.(Duration).Seconds
//@ pure
//@ ensures d > 0 ==> result >= 0.0 && result <= 9300000000.0

// ---- net / multiaddr ------------------------------------------------------------------------------
//@ spec ipString(ip net.IP) string
//@ spec ipOf(addr multiaddr.Multiaddr) string
//@ spec toIPFails(addr multiaddr.Multiaddr) bool
//@ func github.com/multiformats/go-multiaddr/net.ToIP
//@ assigns nothing
//@ ensures result1 == nil ==> ipString(result0) == ipOf(addr)
//@ ensures (result1 != nil) == toIPFails(addr)
//@ func net.(IP).String
//@ pure
//@ ensures result == ipString(ip)
// canonicalIP(s): the canonical text form (net.IP.String) of the address the text s denotes
//@ spec canonicalIP(s string) string
//@ func net.ParseIP
//@ assigns nothing
//@ ensures result != nil ==> ipString(result) == canonicalIP(s)
// building a libp2p option does not touch engine state
//@ func github.com/libp2p/go-libp2p.ConnectionGater
//@ assigns nothing

// ---- libp2p ---------------------------------------------------------------------------------------
// text form of a multiaddr; isRemoteText(s): s is the text of the remote end of a connection, optionally followed by
// "/p2p/<peer id>" (what penalties and bans are addressed by)
//@ spec maText(m multiaddr.Multiaddr) string
//@ spec isRemoteText(s string) bool
//@ iface github.com/libp2p/go-libp2p/core/network.ConnMultiaddrs.RemoteMultiaddr
//@ pure
//@ ensures[names-the-remote-end] isRemoteText(maText(result)) && forallT(y, string, isRemoteText(maText(result)+"/p2p/"+y))
//@ iface github.com/libp2p/go-libp2p/core/network.ConnMultiaddrs.LocalMultiaddr
//@ pure
//@ iface github.com/multiformats/go-multiaddr.Multiaddr.String
//@ pure
//@ ensures result == maText(recv)
//@ func github.com/multiformats/go-multiaddr.NewMultiaddr
//@ assigns nothing
//@ ensures result1 == nil ==> maText(result0) == s
// RLocker(): a Locker whose Lock/Unlock are RLock/RUnlock of the same mutex
//@ spec rlockerOf(l sync.Locker) *sync.RWMutex
//@ func sync.(*RWMutex).RLocker
//@ pure
//@ ensures rlockerOf(result) == rw
//@ iface sync.Locker.Lock
//@ requires[no-write-lock-held-by-this-goroutine] wheld(rlockerOf(recv)) == 0
//@ requires[no-recursive-read-lock] rheld(rlockerOf(recv)) == 0
//@ assigns rheld(rlockerOf(recv))
//@ ensures rheld(rlockerOf(recv)) == old(rheld(rlockerOf(recv)))+1
//@ iface sync.Locker.Unlock
//@ requires[read-locked] rheld(rlockerOf(recv)) > 0
//@ assigns rheld(rlockerOf(recv))
//@ ensures rheld(rlockerOf(recv)) == old(rheld(rlockerOf(recv)))-1
//@ func sync.(*WaitGroup).Done
//@ assigns nothing
//@ func sync.(*WaitGroup).Add
//@ assigns nothing
//@ func sync.(*WaitGroup).Wait
//@ assigns nothing
//@ iface context.Context.Done
//@ pure

// ---- hashing ------------------------------------------------------------------------------------------

// ---- unicode -------------------------------------------------------------------------------------------
//@ func unicode/utf8.Valid
//@ pure

// Unicode normalisation (golang.org/x/text): an uninterpreted function of the form and the string
//@ spec normForm(f int, s string) string
//@ func golang.org/x/text/unicode/norm.(Form).String
//@ assigns nothing
//@ ensures result == normForm(int(f), s)
// IsNormal(b): normalising b to the form leaves it unchanged (its definition)
//@ func golang.org/x/text/unicode/norm.(Form).IsNormal
//@ assigns nothing
//@ ensures result == (normForm(int(f), string(b)) == string(b))

// ---- encoding/json: decoding writes the fields of its target object and freshly allocated memory only (assumed; the
// targets in this code base are request structs allocated by the caller).  The target is kept as a ghost call record.
//@ ghost lastUnmarshalTarget() interface{}
//@ func encoding/json.Unmarshal
//@ assigns pointee(v), lastUnmarshalTarget()
//@ records lastUnmarshalTarget() == v

// text form of a libp2p peer ID: a function of the ID
//@ func github.com/libp2p/go-libp2p/core/peer.(ID).String
//@ pure

// ---- pebble write batches: staging an operation changes nothing the engine observes; Commit writes to the database
//@ func github.com/cockroachdb/pebble.(*Batch).Set
//@ assigns nothing
//@ func github.com/cockroachdb/pebble.(*Batch).Delete
//@ assigns nothing
//@ func github.com/cockroachdb/pebble.(*Batch).Reset
//@ assigns nothing
//@ func github.com/cockroachdb/pebble.(*Batch).Commit
//@ assigns nPebbleCommits()
//@ records nPebbleCommits() == old(nPebbleCommits())+1

// absolute value of a float
//@ func math.Abs
//@ pure
//@ ensures (x >= 0.0 ==> result == x) && (x < 0.0 ==> result == 0.0 - x)

// tickers: creating / re-arming one does not touch engine state
//@ func time.NewTicker
//@ assigns nothing
//@ ensures result != nil && fresh(result)
//@ func time.(*Ticker).Reset
//@ assigns nothing
