//go:build verif_specs

// Assumed (trusted, never proved) contracts for standard-library and
// third-party functions, in the same //@ syntax as the contract files in /repo.
package specs

//@ func bytes.Equal
//@ pure
//@ ensures result == bytes.Equal(b, a)

// errors: values created by errors.New are "plain" (no wrapping chain).
//@ spec plainErr(e error) bool

//@ func errors.Is
//@ pure
//@ ensures err == target ==> result
//@ ensures plainErr(err) && err != target ==> !result
//@ ensures err == nil && target != nil ==> !result

//@ func errors.New
//@ assigns nothing
//@ ensures result != nil && plainErr(result)

//@ func fmt.Errorf
//@ assigns nothing
//@ ensures result != nil

//@ func time.(Time).Unix
//@ pure

// ---- blst (cgo): assumed not to panic and not to touch Go-visible memory ---------------
//@ func github.com/supranational/blst/bindings/go.*
//@ assigns nothing

// ---- encoding/binary big-endian helpers -------------------------------------------------
//@ func encoding/binary.(bigEndian).PutUint32
//@ requires[room] len(b) >= 4
//@ assigns b[0:4]
//@ func encoding/binary.(bigEndian).PutUint64
//@ requires[room] len(b) >= 8
//@ assigns b[0:8]
//@ func encoding/binary.(bigEndian).PutUint16
//@ requires[room] len(b) >= 2
//@ assigns b[0:2]
//@ func encoding/binary.(bigEndian).Uint32
//@ requires[room] len(b) >= 4
//@ pure
//@ func encoding/binary.(bigEndian).Uint64
//@ requires[room] len(b) >= 8
//@ pure
//@ func encoding/binary.(bigEndian).Uint16
//@ requires[room] len(b) >= 2
//@ pure
//@ func bytes.Compare
//@ pure
