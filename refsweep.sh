#!/bin/bash
# usage: refsweep.sh [name-pattern] — false-alarm regression: every behaviour-preserving edit stored under
# /verif/harmless/<id>/patchN.diff is applied to a scratch worktree of /repo's HEAD and the property's quick check is run
# against it.  QUIET = exit 0 (what is wanted); ALARM = a VIOLATION line although the behaviour is unchanged.
set -u
export GOFLAGS=-mod=mod GOPROXY=off GOSUMDB=off GOTOOLCHAIN=local
pat=${1:-}
wt=$(mktemp -d /tmp/refsweep-XXXX); rmdir $wt
git -C /repo worktree add --detach $wt HEAD >/dev/null 2>&1 || exit 2
trap 'git -C /repo worktree remove --force $wt >/dev/null 2>&1; rm -rf $wt' EXIT
alarms=0
for d in /verif/harmless/*${pat}*/; do
  name=$(basename $d); prop=${name%%r*}
  for pf in $d/patch*.diff; do
    [ -f $pf ] || continue
    if ! git -C $wt apply --check $pf 2>/dev/null; then echo "$name $(basename $pf) NOT-APPLICABLE"; continue; fi
    git -C $wt apply $pf
    if ! (cd $wt && go build ./... >/dev/null 2>&1); then echo "$name $(basename $pf) DOES-NOT-BUILD"; git -C $wt checkout -q -- . ; continue; fi
    out=$(/verif/bin/govc -repo $wt -specs /verif/specs -prop $prop -tier quick -out /tmp/refsweep-ev.json -replays /tmp/refsweep-replays 2>&1); rc=$?
    git -C $wt checkout -q -- . ; git -C $wt clean -fdq
    if [ $rc -eq 0 ]; then echo "$name $(basename $pf) QUIET"; else alarms=$((alarms+1)); echo "$name $(basename $pf) ALARM rc=$rc $(echo "$out" | grep -m2 'failed obligation\|baseline obligation\|TOOL' | cut -c1-200 | tr '\n' ' ')"; fi
  done
done
rm -rf /tmp/refsweep-ev.json /tmp/refsweep-replays
echo "alarms=$alarms"
