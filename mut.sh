#!/bin/bash
# usage: mut.sh <prop> <file-relative-to-repo> <sed-expression>   (development helper: apply, check, revert)
prop=$1; f=$2; shift 2
cp /repo/$f /tmp/mut.bak
sed -i "$@" /repo/$f
if cmp -s /repo/$f /tmp/mut.bak; then echo "MUTATION DID NOT APPLY"; fi
/verif/bin/govc -prop $prop 2>&1 | grep -E "load error|VIOLATION|failed obligation|baseline obligation|UNDECIDED|TOOL|^property" | head -12
cp /tmp/mut.bak /repo/$f
