package main

// Engine-side quantifier handling: goals are skolemised, and universally
// quantified hypotheses are additionally instantiated at the index terms that
// occur in the obligation (array-property style).  Instances are added next to
// the quantified originals, so a `sat` answer is never produced from a weakened
// problem.

const maxInstCands = 48

// skolemize replaces positive-polarity universals (negative existentials) of a goal by
// fresh constants; returns the new goal and the skolem constants.
func skolemize(goal *Term) (*Term, []*Term) { return skolemizePol(goal, true) }

// skolemKeep: quantified sub-formulas that also occur verbatim in a hypothesis are left intact in the
// goal, so that "the goal is literally one of the hypotheses" stays a propositional step.
var skolemKeep map[int]bool

func quantIDs(ts []*Term) map[int]bool {
	out := map[int]bool{}
	seen := map[int]bool{}
	var rec func(t *Term)
	rec = func(t *Term) {
		if seen[t.id] {
			return
		}
		seen[t.id] = true
		if t.op == "forall" || t.op == "exists" {
			out[t.id] = true
		}
		for _, a := range t.args {
			rec(a)
		}
	}
	for _, t := range ts {
		rec(t)
	}
	return out
}

// skolemizeHyp: positive existentials (negative universals) of an assumed formula.
func skolemizeHyp(h *Term) (*Term, []*Term) { return skolemizePol(h, false) }

func skolemizePol(goal *Term, goalSide bool) (*Term, []*Term) {
	var sks []*Term
	var rec func(t *Term, pos bool) *Term
	rec = func(t *Term, pos bool) *Term {
		switch t.op {
		case "and", "or":
			na := make([]*Term, len(t.args))
			ch := false
			for i, a := range t.args {
				na[i] = rec(a, pos)
				if na[i] != a {
					ch = true
				}
			}
			if !ch {
				return t
			}
			if t.op == "and" {
				return And(na...)
			}
			return Or(na...)
		case "not":
			n := rec(t.args[0], !pos)
			if n == t.args[0] {
				return t
			}
			return Not(n)
		case "forall", "exists":
			if goalSide && skolemKeep != nil && skolemKeep[t.id] {
				return t
			}
			if ((t.op == "forall") == pos) == goalSide && !t.bound {
				m := map[int]*Term{}
				for _, bv := range t.args[:len(t.args)-1] {
					sk := FreshVar("sk."+bv.name, bv.sort)
					m[bv.id] = sk
					sks = append(sks, sk)
				}
				body := Subst(t.args[len(t.args)-1], m)
				return rec(body, pos)
			}
		}
		return t
	}
	return rec(goal, true), sks
}

// positiveForalls finds universally quantified sub-formulas of an assumed formula h that
// occur only with positive polarity (and existentials only negative).
func positiveForalls(h *Term) []*Term {
	pos := map[int]bool{}
	neg := map[int]bool{}
	var order []*Term
	seen := map[[2]int]bool{}
	var rec func(t *Term, p bool)
	rec = func(t *Term, p bool) {
		k := [2]int{t.id, 0}
		if p {
			k[1] = 1
		}
		if seen[k] {
			return
		}
		seen[k] = true
		switch t.op {
		case "and", "or":
			for _, a := range t.args {
				rec(a, p)
			}
		case "not":
			rec(t.args[0], !p)
		case "ite":
			if t.sort.K == SBool {
				rec(t.args[0], true)
				rec(t.args[0], false)
				rec(t.args[1], p)
				rec(t.args[2], p)
			}
		case "=":
			if t.args[0].sort.K == SBool {
				for _, a := range t.args {
					rec(a, true)
					rec(a, false)
				}
			}
		case "forall":
			if t.bound {
				return
			}
			if p {
				if !pos[t.id] {
					order = append(order, t)
				}
				pos[t.id] = true
			} else {
				neg[t.id] = true
			}
		case "exists":
			if !p {
				// ¬∃ ≡ ∀¬ : handled as a universal of the negated body
				if t.bound {
					return
				}
				if !pos[t.id] {
					order = append(order, t)
				}
				pos[t.id] = true
			} else {
				neg[t.id] = true
			}
		}
	}
	rec(h, true)
	var out []*Term
	for _, t := range order {
		if !neg[t.id] {
			out = append(out, t)
		}
	}
	return out
}

// instantiate returns extra (implied) assertions: every hypothesis with positive universals,
// with each universal replaced by the conjunction of its instances at cands.
// classOfUF: heap class part of a heap UF name ("E:uint8#0@lp!3" -> "E:uint8#0").
func classOfUF(name string) string {
	for i := len(name) - 1; i >= 0; i-- {
		if name[i] == '@' {
			return name[:i]
		}
	}
	return name
}

// groundReads collects, per element-heap class, the index arguments of ground reads.
func groundReads(ts []*Term) map[string][]*Term {
	out := map[string][]*Term{}
	seen := map[int]bool{}
	var rec func(t *Term)
	rec = func(t *Term) {
		if seen[t.id] {
			return
		}
		seen[t.id] = true
		if t.op == "app" && !t.bound && len(t.args) == 2 && len(t.name) > 2 && t.name[0] == 'E' && t.name[1] == ':' && t.args[1].sort.K == SBV {
			c := classOfUF(t.name)
			if len(out[c]) < 24 {
				out[c] = append(out[c], t.args[1])
			}
		}
		for _, a := range t.args {
			rec(a)
		}
	}
	for _, t := range ts {
		rec(t)
	}
	return out
}

// triggerCands: for a universal over bv with body reading E(a, o+bv) (or E(a, bv)), the terms
// idx-o for every ground read index idx of the same element class.
func triggerCands(bv *Term, body *Term, reads map[string][]*Term) []*Term {
	var out []*Term
	seenC := map[int]bool{}
	seen := map[int]bool{}
	var rec func(t *Term)
	rec = func(t *Term) {
		if seen[t.id] || !t.bound {
			return
		}
		seen[t.id] = true
		if t.op == "app" && len(t.args) == 2 && len(t.name) > 2 && t.name[0] == 'E' && t.name[1] == ':' {
			idx := t.args[1]
			var off *Term
			ok := false
			if idx == bv {
				ok = true
			} else if idx.op == "bvadd" && len(idx.args) == 2 {
				if idx.args[1] == bv && !idx.args[0].bound {
					off, ok = idx.args[0], true
				} else if idx.args[0] == bv && !idx.args[1].bound {
					off, ok = idx.args[1], true
				}
			}
			if ok {
				for _, g := range reads[classOfUF(t.name)] {
					if g.sort != bv.sort {
						continue
					}
					c := g
					if off != nil {
						c = BVBin("bvsub", g, off)
					}
					if !seenC[c.id] && len(out) < 16 {
						seenC[c.id] = true
						out = append(out, c)
					}
				}
			}
		}
		for _, a := range t.args {
			rec(a)
		}
	}
	rec(body)
	return out
}

func instantiate(hyps []*Term, cands []*Term) []*Term {
	reads := groundReads(hyps)
	var out []*Term
	for _, h := range hyps {
		cur := h
		for round := 0; round < 2; round++ {
			qs := positiveForalls(cur)
			if len(qs) == 0 {
				break
			}
			m := map[int]*Term{}
			for _, q := range qs {
				bvs := q.args[:len(q.args)-1]
				if len(bvs) != 1 {
					continue
				}
				bv := bvs[0]
				body := q.args[len(q.args)-1]
				var insts []*Term
				all := append(append([]*Term{}, cands...), triggerCands(bv, body, reads)...)
				seenI := map[int]bool{}
				for _, c := range all {
					if c.sort != bv.sort || seenI[c.id] {
						continue
					}
					seenI[c.id] = true
					insts = append(insts, Subst(body, map[int]*Term{bv.id: c}))
				}
				if len(insts) == 0 {
					continue
				}
				if q.op == "forall" {
					m[q.id] = And(insts...)
				} else {
					// ¬∃x.B ⇒ ¬(B(c1) ∨ ...): replace the existential by the disjunction of instances
					m[q.id] = Or(insts...)
				}
			}
			if len(m) == 0 {
				break
			}
			nxt := Subst(cur, m)
			if nxt == cur {
				break
			}
			cur = nxt
		}
		if cur != h {
			out = append(out, cur)
		}
	}
	return out
}

func (ex *executor) noteIndex(t *Term) {
	if t == nil || t.bound || t.sort.K != SBV || t.sort.W != 64 {
		return
	}
	r := ex.root()
	if r.idxSeen == nil {
		r.idxSeen = map[int]bool{}
	}
	if r.idxSeen[t.id] || len(r.idxTerms) >= maxInstCands {
		return
	}
	r.idxSeen[t.id] = true
	r.idxTerms = append(r.idxTerms, t)
}

// dropQuant weakens an assumed formula by replacing every remaining positive universal by true
// and every negative existential by false (sound for proving: fewer hypotheses).
func dropQuant(t *Term) (*Term, bool) {
	dropped := false
	var rec func(t *Term, pos bool) *Term
	rec = func(t *Term, pos bool) *Term {
		switch t.op {
		case "and", "or":
			na := make([]*Term, len(t.args))
			ch := false
			for i, a := range t.args {
				na[i] = rec(a, pos)
				if na[i] != a {
					ch = true
				}
			}
			if !ch {
				return t
			}
			if t.op == "and" {
				return And(na...)
			}
			return Or(na...)
		case "not":
			n := rec(t.args[0], !pos)
			if n == t.args[0] {
				return t
			}
			return Not(n)
		case "forall":
			if dropKeep != nil && dropKeep[t.id] {
				return t
			}
			if pos && !t.bound {
				dropped = true
				return True
			}
		case "exists":
			if dropKeep != nil && dropKeep[t.id] {
				return t
			}
			if !pos && !t.bound {
				dropped = true
				return False
			}
		}
		return t
	}
	r := rec(t, true)
	return r, dropped
}

func hasQuant(t *Term) bool {
	seen := map[int]bool{}
	var rec func(t *Term) bool
	rec = func(t *Term) bool {
		if seen[t.id] {
			return false
		}
		seen[t.id] = true
		if t.op == "forall" || t.op == "exists" {
			return true
		}
		for _, a := range t.args {
			if rec(a) {
				return true
			}
		}
		return false
	}
	return rec(t)
}

var idxCandLimit = 6

// dropKeep: quantified sub-formulas shared verbatim by goal and hypotheses act as propositional atoms;
// the instances-only weakening keeps them.
var dropKeep map[int]bool

