package main

import (
	"context"
	"fmt"
	"os"
	"os/exec"
	"path/filepath"
	"regexp"
	"strings"
	"sync"
	"time"
)

type solverSpec struct {
	name string
	args func(timeoutS int, file string) []string
}

var solvers = []solverSpec{
	{"z3-new", func(t int, f string) []string { return []string{"z3-new", "-smt2", fmt.Sprintf("-T:%d", t), f} }},
	{"cvc5", func(t int, f string) []string {
		return []string{"cvc5", "--lang=smt2", fmt.Sprintf("--tlimit=%d", t*1000), f}
	}},
	{"z3", func(t int, f string) []string { return []string{"z3", "-smt2", fmt.Sprintf("-T:%d", t), f} }},
}

type solveOut struct {
	status string // sat | unsat | unknown
	solver string
	raw    string
	secs   float64
}

func runSolver(ctx context.Context, sp solverSpec, timeoutS int, file string) solveOut {
	t0 := time.Now()
	a := sp.args(timeoutS, file)
	cctx, cancel := context.WithTimeout(ctx, time.Duration(timeoutS+2)*time.Second)
	defer cancel()
	cmd := exec.CommandContext(cctx, a[0], a[1:]...)
	out, _ := cmd.CombinedOutput()
	s := string(out)
	first := strings.TrimSpace(strings.SplitN(s, "\n", 2)[0])
	st := "unknown"
	switch first {
	case "sat":
		st = "sat"
	case "unsat":
		st = "unsat"
	}
	return solveOut{status: st, solver: sp.name, raw: s, secs: time.Since(t0).Seconds()}
}

// solveQuery: z3-new and cvc5 are raced from the start; z3 4.8 joins after fastS seconds. The
// first definite answer wins. With confirm, an unsat answer must be confirmed by a second solver.
func solveQuery(file string, fastS, fullS int, confirm bool) solveOut {
	t0 := time.Now()
	ctx, cancel := context.WithCancel(context.Background())
	defer cancel()
	ch := make(chan solveOut, len(solvers))
	started := 0
	start := func(sp solverSpec, t int) {
		started++
		go func() { ch <- runSolver(ctx, sp, t, file) }()
	}
	start(solvers[0], fullS)
	start(solvers[1], fullS)
	late := time.After(time.Duration(fastS) * time.Second)
	var best solveOut
	best.status = "unknown"
	var firstDef *solveOut
	got := 0
	for got < started {
		select {
		case <-late:
			late = nil
			if fullS > fastS {
				start(solvers[2], fullS-fastS)
			}
		case o := <-ch:
			got++
			if o.status == "unknown" {
				if len(best.raw) < len(o.raw) {
					best.raw = o.raw
				}
				if best.solver == "" {
					best.solver = o.solver
				}
				continue
			}
			if !confirm || o.status == "sat" {
				o.secs = time.Since(t0).Seconds()
				return o
			}
			if firstDef == nil {
				oo := o
				firstDef = &oo
				continue
			}
			if firstDef.status != o.status {
				return solveOut{status: "unknown", solver: firstDef.solver + "≠" + o.solver, raw: "solvers disagree: " + firstDef.status + " vs " + o.status, secs: time.Since(t0).Seconds()}
			}
			r := *firstDef
			r.solver = firstDef.solver + "+" + o.solver
			r.secs = time.Since(t0).Seconds()
			return r
		}
	}
	if firstDef != nil {
		// confirmed by nobody else within the limit: keep the single answer, marked
		r := *firstDef
		r.solver += "(unconfirmed)"
		r.secs = time.Since(t0).Seconds()
		return r
	}
	if best.solver == "" {
		best.solver = "z3-new"
	}
	best.secs = time.Since(t0).Seconds()
	return best
}

var valRe = regexp.MustCompile(`^\s*\(?\(\s*(\|[^|]*\||[^\s()]+)\s+(.*?)\)\)?\s*$`)

func parseModel(raw string, gv map[string]*Term) map[string]string {
	m := map[string]string{}
	lines := strings.Split(raw, "\n")
	for _, l := range lines[1:] {
		l = strings.TrimSpace(l)
		if l == "" {
			continue
		}
		mm := valRe.FindStringSubmatch(l)
		if mm == nil {
			continue
		}
		name := strings.Trim(mm[1], "|")
		m[name] = strings.TrimSpace(mm[2])
	}
	return m
}

func (o *Obligation) query(axioms []*Term) *Query {
	q := &Query{Axioms: axioms}
	var hyps []*Term
	var hsks []*Term
	for _, h := range o.Hyps {
		nh, sk := skolemizeHyp(h)
		hyps = append(hyps, nh)
		hsks = append(hsks, sk...)
	}
	q.Asserts = append(q.Asserts, hyps...)
	q.Asserts = append(q.Asserts, o.PC)
	if !o.Cover {
		skolemKeep = quantIDs(o.Hyps)
		if os.Getenv("GOVC_DEBUG_KEEP") != "" {
			n := 0
			for id := range quantIDs([]*Term{o.Goal}) {
				if skolemKeep[id] {
					n++
				}
			}
			fmt.Fprintf(os.Stderr, "DEBUG keep %s: %d of %d goal quantifiers shared with hypotheses\n", o.Name, n, len(quantIDs([]*Term{o.Goal})))
			if strings.Contains(o.Name, os.Getenv("GOVC_DEBUG_KEEP")) {
				var pr func(t *Term, d int)
				seenP := map[int]bool{}
				pr = func(t *Term, d int) {
					if seenP[t.id] {
						return
					}
					seenP[t.id] = true
					if t.op == "forall" {
						fmt.Fprintf(os.Stderr, "  Q#%d %s\n", t.id, t.render(12))
					}
					for _, a := range t.args {
						pr(a, d+1)
					}
				}
				fmt.Fprintf(os.Stderr, " GOAL:\n")
				pr(o.Goal, 0)
				fmt.Fprintf(os.Stderr, " HYPS:\n")
				for _, h := range o.Hyps {
					pr(h, 0)
				}
			}
		}
		goal, sks := skolemize(o.Goal)
		skolemKeep = nil
		ng := Not(goal)
		q.Asserts = append(q.Asserts, ng)
		q.NBase = len(q.Asserts)
		var cands []*Term
		cands = append(cands, sks...)
		cands = append(cands, hsks...)
		if o.RP != nil && o.RP.ex != nil && o.RP.ex.idxSeen != nil {
			// index terms that occur in the (skolemised) negated goal
			seenT := map[int]bool{}
			var walk func(t *Term)
			walk = func(t *Term) {
				if seenT[t.id] {
					return
				}
				seenT[t.id] = true
				if o.RP.ex.idxSeen[t.id] && !t.bound && len(cands) < idxCandLimit {
					cands = append(cands, t)
				}
				for _, a := range t.args {
					walk(a)
				}
			}
			walk(ng)
		}
		if len(cands) > maxInstCands {
			cands = cands[:maxInstCands]
		}
		base := append(append([]*Term{}, hyps...), ng)
		seenA := map[int]bool{}
		for round := 0; round < 3; round++ {
			ext := instantiate(base, cands)
			grew := false
			for _, e := range ext {
				ne, sk := skolemizeHyp(e)
				if seenA[ne.id] {
					continue
				}
				if len(sk) > 0 && len(cands) < maxInstCands+16 {
					cands = append(cands, sk...)
					grew = true
				}
				if round == 2 || !grew {
					seenA[ne.id] = true
					q.Asserts = append(q.Asserts, ne)
				}
			}
			if !grew {
				break
			}
		}
	}
	for _, in := range o.Inputs {
		if in.Term.op == "var" {
			q.GetValues = append(q.GetValues, in.Term)
		}
	}
	return q
}

type solveCfg struct {
	dir     string
	fastS   int
	fullS   int
	confirm bool
	workers int
}

func solveAll(obls []*Obligation, cfg solveCfg) {
	// obligations given as a conjunction of parts are decided part by part
	var flat []*Obligation
	parents := map[*Obligation][]*Obligation{}
	for _, o := range obls {
		if len(o.Parts) == 0 && !o.Cover && o.Goal != nil && hasQuant(o.Goal) {
			if ps := splitGoal(o.Goal, 3); len(ps) > 1 && len(ps) <= 16 {
				o.Parts = ps
			}
		}
		if len(o.Parts) > 1 && !o.Cover {
			for k, g := range o.Parts {
				c := *o
				c.Parts = nil
				c.Goal = g
				c.Name = fmt.Sprintf("%s [part %d/%d]", o.Name, k+1, len(o.Parts))
				cp := &c
				parents[o] = append(parents[o], cp)
				flat = append(flat, cp)
			}
			continue
		}
		flat = append(flat, o)
	}
	solveFlat(flat, cfg)
	for o, cs := range parents {
		o.Status, o.Solver, o.Time = "proved", "", 0
		for _, c := range cs {
			if c.Time > o.Time {
				o.Time = c.Time
			}
			if o.Solver == "" || c.Time >= o.Time {
				o.Solver = c.Solver
			}
			switch c.Status {
			case "refuted":
				if o.Status != "refuted" {
					o.Status, o.Model, o.Raw, o.Note, o.Goal = "refuted", c.Model, c.Raw, c.Note, c.Goal
				}
			case "unknown":
				if o.Status == "proved" {
					o.Status, o.Raw, o.Note = "unknown", c.Raw, c.Note
				}
			}
		}
		if len(cs) > 1 {
			o.Solver += fmt.Sprintf(" (%d parts)", len(cs))
		}
	}
}

func solveFlat(obls []*Obligation, cfg solveCfg) {
	os.MkdirAll(cfg.dir, 0o755)
	type job struct {
		o      *Obligation
		file   string
		qfFile string
		skFile string
	}
	var jobs []job
	// rendering is sequential (term store is not concurrent)
	for i, o := range obls {
		if !o.Cover {
			if o.Goal == True || o.PC == False {
				o.Status, o.Solver = "proved", "simplifier"
				continue
			}
		}
		q := o.query(TS.axioms)
		txt, _ := q.Render(true)
		file := filepath.Join(cfg.dir, fmt.Sprintf("o%05d.smt2", i))
		header := fmt.Sprintf("; obligation: %s\n; kind: %s  expect: %s\n", o.Name, o.Kind, map[bool]string{true: "sat (cover)", false: "unsat"}[o.Cover])
		if err := os.WriteFile(file, []byte(header+txt), 0o644); err != nil {
			panic(err)
		}
		j := job{o: o, file: file}
		if !o.Cover {
			// instances-only variant: quantified hypotheses replaced by their ground instances
			any := false
			dropKeep = map[int]bool{}
			gq := quantIDs([]*Term{o.Goal})
			for id := range quantIDs(o.Hyps) {
				if gq[id] {
					dropKeep[id] = true
				}
			}
			q2 := &Query{Axioms: q.Axioms, GetValues: q.GetValues}
			for _, a := range q.Asserts {
				d, dr := dropQuant(a)
				if dr {
					any = true
				}
				q2.Asserts = append(q2.Asserts, d)
			}
			// quantifier-free skeleton: no instances at all (decides frame-like goals in long functions fast)
			if any && q.NBase > 0 && q.NBase < len(q.Asserts) || (any && hasAnyQuant(q.Asserts)) {
				q0 := &Query{Axioms: q.Axioms}
				n := q.NBase
				if n == 0 || n > len(q.Asserts) {
					n = len(q.Asserts)
				}
				for _, a := range q.Asserts[:n] {
					d, _ := dropQuant(a)
					q0.Asserts = append(q0.Asserts, d)
				}
				txt0, _ := q0.Render(false)
				j.skFile = filepath.Join(cfg.dir, fmt.Sprintf("o%05d.skel.smt2", i))
				os.WriteFile(j.skFile, []byte(header+"; quantifier-free skeleton\n"+txt0), 0o644)
			}
			dropKeep = nil
			if any {
				txt2, _ := q2.Render(false)
				j.qfFile = filepath.Join(cfg.dir, fmt.Sprintf("o%05d.inst.smt2", i))
				os.WriteFile(j.qfFile, []byte(header+"; instances-only weakening\n"+txt2), 0o644)
			}
		}
		jobs = append(jobs, j)
	}
	process := func(j job, instLimit int) {
		o := j.o
		var r solveOut
		done := false
		if j.skFile != "" {
			r = solveQuery(j.skFile, cfg.fastS, 5, false)
			if r.status == "unsat" {
				r.solver += "+skeleton"
				done = true
			}
		}
		if !done && j.qfFile != "" {
			t0 := r.secs
			r = solveQuery(j.qfFile, cfg.fastS, instLimit, false)
			r.secs += t0
			if r.status == "unsat" {
				r.solver += "+inst"
				done = true
			}
		}
		if !done {
			t1 := r.secs
			lim := cfg.fullS
			if o.Cover && lim > 20 {
				// a vacuity cover only matters when it is refuted (unsat), which solvers report fast
				lim = 20
			}
			r = solveQuery(j.file, cfg.fastS, lim, cfg.confirm && !o.Cover)
			r.secs += t1
		}
		o.Solver, o.Time, o.Raw = r.solver, r.secs, r.raw
		switch {
		case o.Cover && r.status == "sat":
			o.Status = "proved"
		case o.Cover && r.status == "unsat":
			o.Status = "refuted" // vacuous
		case !o.Cover && r.status == "unsat":
			o.Status = "proved"
		case !o.Cover && r.status == "sat":
			o.Status = "refuted"
			o.Model = parseModel(r.raw, nil)
		default:
			o.Status = "unknown"
		}
		o.Note = j.file
	}
	il := cfg.fullS / 3
	if il < 20 {
		il = 20
	}
	runPool := func(js []job, workers, instLimit int) {
		var wg sync.WaitGroup
		ch := make(chan job)
		for w := 0; w < workers; w++ {
			wg.Add(1)
			go func() {
				defer wg.Done()
				for j := range ch {
					process(j, instLimit)
				}
			}()
		}
		for _, j := range js {
			ch <- j
		}
		close(ch)
		wg.Wait()
	}
	runPool(jobs, cfg.workers, il)
	// A few proof obligations left without an answer are tried once more with the machine to themselves:
	// with all workers racing three solvers each, a condition that needs a third of the limit unloaded
	// can run out of time for no semantic reason. Refutations and proofs are never retried.
	var again []job
	for _, j := range jobs {
		if !j.o.Cover && j.o.Status == "unknown" {
			again = append(again, j)
		}
	}
	if n := len(again); n > 0 && n <= 4 {
		before := map[*Obligation]float64{}
		for _, j := range again {
			before[j.o] = j.o.Time
		}
		runPool(again, 2, cfg.fullS)
		for _, j := range again {
			j.o.Time += before[j.o]
			if j.o.Status != "unknown" {
				j.o.Solver += " (retried unloaded)"
			}
		}
	}
}

// explain re-solves a refuted obligation asking for the truth value of every
// conjunct / disjunct of its goal and the values of interesting sub-terms.
func explain(o *Obligation, dir string) string {
	var parts []*Term
	seen := map[int]bool{}
	var split func(t *Term, depth int)
	split = func(t *Term, depth int) {
		if seen[t.id] || t.bound {
			return
		}
		seen[t.id] = true
		if t.sort.K == SBool && t.op != "const" {
			parts = append(parts, t)
		}
		if depth > 6 {
			return
		}
		switch t.op {
		case "and", "or", "not", "ite", "=":
			for _, a := range t.args {
				split(a, depth+1)
			}
		}
	}
	skGoal, _ := skolemize(o.Goal)
	split(skGoal, 0)
	// scalar leaves of the goal
	var leaves []*Term
	var walk func(t *Term, d int)
	lseen := map[int]bool{}
	walk = func(t *Term, d int) {
		if lseen[t.id] || t.bound || d > 12 {
			return
		}
		lseen[t.id] = true
		if (t.op == "var" || t.op == "app") && len(leaves) < 60 {
			leaves = append(leaves, t)
		}
		for _, a := range t.args {
			walk(a, d+1)
		}
	}
	walk(skGoal, 0)
	q := o.query(TS.axioms)
	q.Asserts = append(q.Asserts, Not(skGoal))
	q.GetValues = append(append([]*Term{}, parts...), leaves...)
	txt, gv := q.Render(true)
	file := filepath.Join(dir, "explain.smt2")
	os.WriteFile(file, []byte(txt), 0o644)
	r := runSolver(context.Background(), solvers[0], 20, file)
	if r.status != "sat" {
		// fall back to the instances-only weakening (decidable, but its model may be spurious)
		var as []*Term
		for _, a := range q.Asserts {
			d, _ := dropQuant(a)
			as = append(as, d)
		}
		q.Asserts = as
		txt, gv = q.Render(true)
		os.WriteFile(file, []byte(txt), 0o644)
		r = runSolver(context.Background(), solvers[1], 20, file)
		if r.status != "sat" {
			r = runSolver(context.Background(), solvers[0], 20, file)
		}
		if r.status != "sat" {
			return "explain: solver says " + r.status + " (also on the instances-only weakening)\n"
		}
		fmt.Println("  (model of the instances-only weakening; may be spurious)")
	}
	// parse get-value output: pairs "(expr value)"
	var sb strings.Builder
	vals := parseValuePairs(r.raw)
	for e, t := range gv {
		v, ok := vals[e]
		if !ok {
			continue
		}
		if t.sort.K == SBool && (t.op == "=" || t.op == "app" || t.op == "var" || strings.HasPrefix(t.op, "bv")) {
			fmt.Fprintf(&sb, "    %-5s %s\n", v, t.render(7))
		}
	}
	for e, t := range gv {
		v, ok := vals[e]
		if !ok {
			continue
		}
		if t.sort.K != SBool {
			fmt.Fprintf(&sb, "    %s = %s\n", t.render(3), v)
		}
	}
	return sb.String()
}

// parseValuePairs parses "((e1 v1)\n (e2 v2))" with balanced parentheses.
func parseValuePairs(raw string) map[string]string {
	out := map[string]string{}
	i := strings.Index(raw, "(")
	if i < 0 {
		return out
	}
	s := raw[i+1:]
	// iterate top-level pairs
	for {
		j := strings.Index(s, "(")
		if j < 0 {
			break
		}
		s = s[j:]
		// read one balanced s-expr
		depth := 0
		k := 0
		inBar := false
		for k = 0; k < len(s); k++ {
			c := s[k]
			if c == '|' {
				inBar = !inBar
			}
			if inBar {
				continue
			}
			if c == '(' {
				depth++
			} else if c == ')' {
				depth--
				if depth == 0 {
					break
				}
			}
		}
		if k >= len(s) {
			break
		}
		pair := s[1:k]
		s = s[k+1:]
		// split pair into first s-expr and rest
		e, v := splitFirstSexpr(pair)
		out[e] = strings.TrimSpace(v)
	}
	return out
}

func splitFirstSexpr(p string) (string, string) {
	p = strings.TrimSpace(p)
	if len(p) == 0 {
		return "", ""
	}
	if p[0] != '(' {
		// atom, possibly |quoted|
		if p[0] == '|' {
			j := strings.Index(p[1:], "|")
			return p[:j+2], p[j+2:]
		}
		j := strings.IndexAny(p, " \t\n")
		if j < 0 {
			return p, ""
		}
		return p[:j], p[j:]
	}
	depth := 0
	inBar := false
	for k := 0; k < len(p); k++ {
		c := p[k]
		if c == '|' {
			inBar = !inBar
		}
		if inBar {
			continue
		}
		if c == '(' {
			depth++
		} else if c == ')' {
			depth--
			if depth == 0 {
				return p[:k+1], p[k+1:]
			}
		}
	}
	return p, ""
}

// splitGoal: conjuncts of a goal of the shape  A ==> (b1 && ... && bn)  (nested up to depth d).
func splitGoal(t *Term, d int) []*Term {
	if d == 0 {
		return []*Term{t}
	}
	switch t.op {
	case "and":
		var out []*Term
		for _, a := range t.args {
			out = append(out, splitGoal(a, d-1)...)
		}
		return out
	case "or":
		idx := -1
		for i, a := range t.args {
			if a.op == "and" {
				if idx >= 0 {
					return []*Term{t}
				}
				idx = i
			}
		}
		if idx < 0 {
			return []*Term{t}
		}
		var out []*Term
		for _, c := range splitGoal(t.args[idx], d-1) {
			na := append([]*Term{}, t.args...)
			na[idx] = c
			out = append(out, Or(na...))
		}
		return out
	}
	return []*Term{t}
}

func hasAnyQuant(ts []*Term) bool {
	for _, t := range ts {
		if hasQuant(t) {
			return true
		}
	}
	return false
}
