package main

import (
	"fmt"
	"go/token"
	"go/types"
)

// lemmaObligations turns `//@ lemma` declarations into SMT-only obligations.
func (eng *Engine) lemmaObligations(prop string) []*Obligation {
	var out []*Obligation
	for i, lm := range eng.cs.Lemmas {
		if prop != "all" && !hasProp(lm.Props, prop) {
			continue
		}
		func() {
			name := fmt.Sprintf("lemma/%s", lm.Label)
			if lm.Label == "" {
				name = fmt.Sprintf("lemma/#%d", i+1)
			}
			ex := eng.newExecutor(nil, name, &Contract{PkgPath: lm.PkgPath, Props: lm.Props}, nil)
			st := &state{pc: True, cells: map[*cellRef]Value{}, heaps: map[string]*Heap{}, alloc: Var("alloc0", IntSort)}
			st.epochs = []epochAlt{{sel: True, tag: "0", bound: st.alloc}}
			ex.entry = st
			defer func() {
				if r := recover(); r != nil {
					if u, ok := r.(unsupported); ok {
						out = append(out, &Obligation{Name: name, Kind: "lemma", Props: lm.Props, PC: True, Goal: False, Status: "unknown", Raw: u.msg, Fn: name})
						return
					}
					panic(r)
				}
			}()
			vars := map[string]Value{}
			for _, f := range lm.Params {
				ty := eng.resolveType(f.Type, lm.PkgPath)
				if ty == nil {
					panic(unsupported{"lemma parameter type " + types.ExprString(f.Type)})
				}
				for _, n := range f.Names {
					v := freshValue("lm."+n.Name, ty)
					vars[n.Name] = v
					for j, c := range v.C {
						ex.inputs = append(ex.inputs, inputSym{fmt.Sprintf("%s.%d", n.Name, j), c})
					}
				}
			}
			env := &specEnv{ex: ex, st: st, old: st, vars: vars, pkgPath: lm.PkgPath, calleeCtx: true}
			for _, h := range lm.Hyps {
				ex.assume(st, ex.evalBoolEnv(h, env))
			}
			for _, u := range lm.Unfolds {
				ex.applyUnfoldEnv(u, env)
			}
			goal := ex.evalBoolEnv(lm.Clause, env)
			o := ex.addObligation(st, "lemma", lm.Label, goal, token.NoPos)
			o.Name = name
			out = append(out, ex.obls...)
		}()
	}
	return out
}
