package main

// Contract files: comment-only Go files whose lines start with "//@".
//
//   //@ func Name | (*T).Name | (T).Name | pkg/path.Name | pkg/path.(*T).Name
//   //@ props C07 C01
//   //@ requires[label] expr          //@ ensures[label] expr
//   //@ records expr (definitional ghost call record)   //@ assumes[label] expr (unchecked postcondition, reported)
//   //@ assigns loc, loc | nothing | everything
//   //@ pure | trusted | inline | nosafety | check nil | may_panic
//   //@ loop N invariant[label] expr  //@ loop N decreases expr  //@ loop N unroll K
//   //@ iface T.Method                (contract for an interface method)
//   //@ spec name(p T, ...) R = expr  (non-recursive: macro)  | //@ spec name(...) R  (uninterpreted)
//   //@ spec rec name(...) R = expr   (recursive: uninterpreted + explicit unfold)
//   //@ lemma[label] (x T, ...) expr
//   //@ ghost name(k T, ...) R        (ghost heap cell family)
//
// Continuation lines: "//@   ..." (three or more spaces after //@) extend the previous clause.

import (
	"bufio"
	"fmt"
	"go/ast"
	"go/parser"
	"os"
	"regexp"
	"strconv"
	"strings"
)

type Clause struct {
	Assumed bool // "assumes": unchecked postcondition (reported as an assumption where it is used)
	Label string
	Text  string
	Expr  ast.Expr
	File  string
	Line  int
}

// Guard: locations protected by a mutex (see `guards`).
type Guard struct {
	Mutex *Clause
	Locs  []*Clause
}

type LoopContract struct {
	Invariants []*Clause
	Decreases  *Clause
	Unroll     int
	Unfolds    []*Clause
	Assigns    []*Clause
	HasAssigns bool
}

type Contract struct {
	Key        string // canonical function key: pkgpath.Func or pkgpath.(*T).Func / pkgpath.(T).Func; iface: pkgpath.T.Method
	IsIface    bool
	Props      []string
	Requires   []*Clause
	Ensures    []*Clause
	Except     []*Clause // locations exempt from Preserves (written by the frame-less callee after all)
	Preserves  []*Clause // locations a frame-less (assigns everything) callee is assumed to leave unchanged
	Stable     []*Clause // whole-class locations assumed untouched by everything this function calls
	Guards     []*Guard
	AtCall     map[string][]*Clause // callee short key -> assertions over the caller's variables, checked at each such call
	Yields     []*Clause // rely conditions re-assumed after every yield point (select, channel operation)
	Records    []*Clause // definitional ghost call records: assumed at call sites, not checked in the body
	Assigns    []*Clause
	HasAssigns bool // explicit assigns clause present
	AssignsAll bool
	Pure       bool
	Trusted    bool
	Inline     bool
	NoSafety   bool
	CheckNil   bool
	CheckOwnership bool
	OwnershipOnly  bool
	AtcallOnly     bool
	MayPanic   bool
	// AllocOnly: function-valued parameters assumed to be constructors: a call through them allocates and
	// returns a fresh non-nil object and writes nothing else (name -> justification)
	AllocOnly  map[string]string
	TrustPre   map[string]string // "callee requires label" -> justification: precondition assumed at call sites in this function
	Loops      map[int]*LoopContract
	Unfolds    []*Clause
	Asserts    []*Clause
	File       string
	Line       int
	PkgPath    string
	Used       bool
}

type SpecFunc struct {
	Name    string
	Params  []*ast.Field
	Result  ast.Expr
	Body    ast.Expr
	Rec     bool
	PkgPath string
	File    string
	Line    int
}

type Lemma struct {
	Label   string
	Params  []*ast.Field
	Clause  *Clause
	Props   []string
	PkgPath string
	Unfolds []*Clause
	Hyps    []*Clause
}

type GhostDecl struct {
	Name    string
	Params  []*ast.Field
	Result  ast.Expr
	PkgPath string
}

type ContractSet struct {
	Funcs  map[string]*Contract
	Specs  map[string]*SpecFunc // key pkgpath + "." + name, and bare name for global specs
	Lemmas []*Lemma
	Ghosts map[string]*GhostDecl
	Errors []string
}

func NewContractSet() *ContractSet {
	return &ContractSet{Funcs: map[string]*Contract{}, Specs: map[string]*SpecFunc{}, Ghosts: map[string]*GhostDecl{}}
}

var labelRe = regexp.MustCompile(`^\[([A-Za-z0-9_.:+-]+)\]\s*`)

// rewriteImplies turns every `A ==> B` (right associative, lowest precedence
// inside its bracket group / argument) into `implies(A, B)`.
func rewriteImplies(s string) string {
	// split into top-level segments by commas inside each bracket group recursively
	var rec func(s string) string
	rec = func(s string) string {
		// first rewrite inside bracket groups
		var sb strings.Builder
		i := 0
		for i < len(s) {
			c := s[i]
			if c == '(' || c == '[' || c == '{' {
				// find matching
				depth := 0
				j := i
				inStr := byte(0)
				for ; j < len(s); j++ {
					d := s[j]
					if inStr != 0 {
						if d == '\\' {
							j++
						} else if d == inStr {
							inStr = 0
						}
						continue
					}
					if d == '"' || d == '\'' || d == '`' {
						inStr = d
						continue
					}
					if d == '(' || d == '[' || d == '{' {
						depth++
					} else if d == ')' || d == ']' || d == '}' {
						depth--
						if depth == 0 {
							break
						}
					}
				}
				if j >= len(s) {
					sb.WriteString(s[i:])
					i = len(s)
					break
				}
				inner := s[i+1 : j]
				// split inner by top-level commas
				parts := splitTop(inner, ',')
				for k := range parts {
					parts[k] = rec(parts[k])
				}
				sb.WriteByte(c)
				sb.WriteString(strings.Join(parts, ","))
				sb.WriteByte(s[j])
				i = j + 1
				continue
			}
			sb.WriteByte(c)
			i++
		}
		t := sb.String()
		// now top-level ==> in t
		idx := indexTop(t, "==>")
		if idx < 0 {
			return t
		}
		l := t[:idx]
		r := rec2(t[idx+3:])
		return "implies(" + strings.TrimSpace(l) + ", " + strings.TrimSpace(r) + ")"
	}
	return rec(s)
}

// rec2 handles the right operand (already bracket-rewritten): further top-level ==>.
func rec2(t string) string {
	idx := indexTop(t, "==>")
	if idx < 0 {
		return t
	}
	return "implies(" + strings.TrimSpace(t[:idx]) + ", " + strings.TrimSpace(rec2(t[idx+3:])) + ")"
}

func splitTop(s string, sep byte) []string {
	var out []string
	depth := 0
	last := 0
	inStr := byte(0)
	for i := 0; i < len(s); i++ {
		d := s[i]
		if inStr != 0 {
			if d == '\\' {
				i++
			} else if d == inStr {
				inStr = 0
			}
			continue
		}
		switch d {
		case '"', '\'', '`':
			inStr = d
		case '(', '[', '{':
			depth++
		case ')', ']', '}':
			depth--
		default:
			if d == sep && depth == 0 {
				out = append(out, s[last:i])
				last = i + 1
			}
		}
	}
	out = append(out, s[last:])
	return out
}

func indexTop(s, pat string) int {
	depth := 0
	inStr := byte(0)
	for i := 0; i < len(s); i++ {
		d := s[i]
		if inStr != 0 {
			if d == '\\' {
				i++
			} else if d == inStr {
				inStr = 0
			}
			continue
		}
		switch d {
		case '"', '\'', '`':
			inStr = d
		case '(', '[', '{':
			depth++
		case ')', ']', '}':
			depth--
		default:
			if depth == 0 && strings.HasPrefix(s[i:], pat) {
				return i
			}
		}
	}
	return -1
}

func parseSpecExpr(text string) (ast.Expr, error) {
	t := rewriteImplies(text)
	e, err := parser.ParseExpr(t)
	if err != nil {
		return nil, fmt.Errorf("cannot parse %q: %v", text, err)
	}
	return e, nil
}

type rawLine struct {
	text string
	line int
}

// ParseContractFile reads one contract file; pkgPath is the import path of the
// package the file belongs to ("" for the global assumed-contract library, in
// which function names must be fully qualified).
func (cs *ContractSet) ParseContractFile(path, pkgPath string) error {
	f, err := os.Open(path)
	if err != nil {
		return err
	}
	defer f.Close()
	sc := bufio.NewScanner(f)
	sc.Buffer(make([]byte, 1<<20), 1<<20)
	var lines []rawLine
	n := 0
	for sc.Scan() {
		n++
		l := sc.Text()
		tl := strings.TrimLeft(l, " \t")
		if !strings.HasPrefix(tl, "//@") {
			continue
		}
		body := tl[3:]
		// strip trailing "// comment" that is preceded by two spaces
		if i := strings.Index(body, "  // "); i >= 0 {
			body = body[:i]
		}
		if strings.HasPrefix(body, "   ") && len(lines) > 0 {
			lines[len(lines)-1].text += " " + strings.TrimSpace(body)
			continue
		}
		lines = append(lines, rawLine{strings.TrimSpace(body), n})
	}
	var cur *Contract
	var curLemma *Lemma
	errf := func(l rawLine, format string, a ...interface{}) {
		cs.Errors = append(cs.Errors, fmt.Sprintf("%s:%d: %s", path, l.line, fmt.Sprintf(format, a...)))
	}
	mkClause := func(l rawLine, rest string) *Clause {
		c := &Clause{File: path, Line: l.line}
		if m := labelRe.FindStringSubmatch(rest); m != nil {
			c.Label = m[1]
			rest = rest[len(m[0]):]
		}
		c.Text = strings.TrimSpace(rest)
		e, err := parseSpecExpr(c.Text)
		if err != nil {
			errf(l, "%v", err)
			return nil
		}
		c.Expr = e
		return c
	}
	for _, l := range lines {
		if l.text == "" {
			continue
		}
		kw := l.text
		rest := ""
		if i := strings.IndexAny(l.text, " \t["); i >= 0 {
			kw = l.text[:i]
			rest = strings.TrimLeft(l.text[i:], " \t")
		}
		switch kw {
		case "func", "iface":
			curLemma = nil
			name := strings.Fields(rest)
			if len(name) == 0 {
				errf(l, "missing function name")
				continue
			}
			key := name[0]
			if i := strings.Index(key, "("); i > 0 && !strings.Contains(key[:i], ".") && !strings.HasPrefix(key, "(") {
				key = key[:i]
			}
			if !isQualified(key) {
				if pkgPath == "" {
					errf(l, "function %s must be package-qualified in a global contract file", key)
					continue
				}
				key = pkgPath + "." + key
			}
			cur = &Contract{Key: key, IsIface: kw == "iface", Loops: map[int]*LoopContract{}, File: path, Line: l.line, PkgPath: pkgPath}
			if pkgPath == "" {
				cur.Trusted = true
				cur.PkgPath = pkgOfKey(key)
			}
			if _, dup := cs.Funcs[key]; dup {
				errf(l, "duplicate contract for %s", key)
			}
			cs.Funcs[key] = cur
		case "props":
			ps := strings.Fields(rest)
			if curLemma != nil {
				curLemma.Props = ps
			} else if cur != nil {
				cur.Props = ps
			} else {
				errf(l, "props outside of func/lemma")
			}
		case "requires", "ensures", "assert", "records", "yields", "assumes":
			if curLemma != nil && kw == "requires" {
				if c := mkClause(l, rest); c != nil {
					curLemma.Hyps = append(curLemma.Hyps, c)
				}
				continue
			}
			if cur == nil {
				errf(l, "%s outside of func", kw)
				continue
			}
			c := mkClause(l, rest)
			if c == nil {
				continue
			}
			switch kw {
			case "requires":
				cur.Requires = append(cur.Requires, c)
			case "ensures":
				cur.Ensures = append(cur.Ensures, c)
			case "records":
				cur.Records = append(cur.Records, c)
			case "assumes":
				// a postcondition taken on trust: assumed at call sites, not checked in the body, reported
				c.Assumed = true
				cur.Records = append(cur.Records, c)
			case "yields":
				cur.Yields = append(cur.Yields, c)
			case "assert":
				cur.Asserts = append(cur.Asserts, c)
			}
		case "assigns":
			if cur == nil {
				errf(l, "assigns outside of func")
				continue
			}
			cur.HasAssigns = true
			rs := strings.TrimSpace(rest)
			if rs == "nothing" {
				continue
			}
			if rs == "everything" {
				cur.AssignsAll = true
				continue
			}
			for _, p := range splitTop(rs, ',') {
				if c := mkClause(l, p); c != nil {
					cur.Assigns = append(cur.Assigns, c)
				}
			}
		case "preserves":
			if cur == nil {
				errf(l, "preserves outside of func")
				continue
			}
			for _, p := range splitTop(strings.TrimSpace(rest), ',') {
				if c := mkClause(l, p); c != nil {
					cur.Preserves = append(cur.Preserves, c)
				}
			}
		case "guards":
			// guards <mutex expr> : <locs> - the locations are protected by the mutex: whenever this function acquires it,
			// they may have been changed by other goroutines since it last held the lock (they are havocked at the
			// acquisition, the `yields` conditions are re-assumed); atlock(e) evaluates e right after the most recent
			// exclusive acquisition
			if cur == nil {
				errf(l, "guards outside of func")
				continue
			}
			{
				fs := strings.SplitN(rest, " : ", 2)
				if len(fs) != 2 {
					errf(l, "guards <mutex> : <locs>")
					continue
				}
				g := &Guard{Mutex: mkClause(l, strings.TrimSpace(fs[0]))}
				for _, p := range splitTop(strings.TrimSpace(fs[1]), ',') {
					if c := mkClause(l, p); c != nil {
						g.Locs = append(g.Locs, c)
					}
				}
				if g.Mutex != nil {
					cur.Guards = append(cur.Guards, g)
				}
			}
		case "atcall":
			// atcall <callee> assert[label] expr : an assertion over the function's own variables that has to hold
			// whenever the function calls <callee> (short key, as in trustpre)
			if cur == nil {
				errf(l, "atcall outside of func")
				continue
			}
			{
				ws := strings.SplitN(strings.TrimSpace(rest), " ", 2)
				if len(ws) != 2 || !strings.HasPrefix(strings.TrimSpace(ws[1]), "assert") {
					errf(l, "atcall <callee> assert[label] expr")
					continue
				}
				if c := mkClause(l, strings.TrimPrefix(strings.TrimSpace(ws[1]), "assert")); c != nil {
					if cur.AtCall == nil {
						cur.AtCall = map[string][]*Clause{}
					}
					cur.AtCall[ws[0]] = append(cur.AtCall[ws[0]], c)
				}
			}
		case "stable":
			// stable <locs> : <justification> - whole-class locations (allof(T).f, anymapof(M)) assumed not to be written
			// by anything this function calls: they survive every havoc inside the function (reported)
			if cur == nil {
				errf(l, "stable outside of func")
				continue
			}
			{
				fs := strings.SplitN(rest, " : ", 2)
				if len(fs) != 2 || strings.TrimSpace(fs[1]) == "" {
					errf(l, "stable <locs> : <justification>")
					continue
				}
				for _, p := range splitTop(strings.TrimSpace(fs[0]), ',') {
					if c := mkClause(l, p); c != nil {
						c.Label = strings.TrimSpace(fs[1])
						cur.Stable = append(cur.Stable, c)
					}
				}
			}
		case "except":
			// except <locs>: locations exempt from the preserves clauses of a frame-less contract
			if cur == nil {
				errf(l, "except outside of func")
				continue
			}
			for _, p := range splitTop(strings.TrimSpace(rest), ',') {
				if c := mkClause(l, p); c != nil {
					cur.Except = append(cur.Except, c)
				}
			}
		case "unfold":
			c := mkClause(l, rest)
			if c == nil {
				continue
			}
			if curLemma != nil {
				curLemma.Unfolds = append(curLemma.Unfolds, c)
			} else if cur != nil {
				cur.Unfolds = append(cur.Unfolds, c)
			}
		case "pure":
			if cur != nil {
				cur.Pure = true
				cur.HasAssigns = true
			}
		case "trusted":
			if cur != nil {
				cur.Trusted = true
			}
		case "verified":
			if cur != nil {
				cur.Trusted = false
			}
		case "inline":
			if cur != nil {
				cur.Inline = true
			}
		case "nosafety":
			if cur != nil {
				cur.NoSafety = true
			}
		case "trustpre":
			// trustpre <callee> <label> : <justification>
			if cur != nil {
				fs := strings.SplitN(rest, ":", 2)
				ws := strings.Fields(fs[0])
				if len(ws) != 2 || len(fs) != 2 {
					errf(l, "trustpre <callee> <label> : <justification>")
					continue
				}
				if cur.TrustPre == nil {
					cur.TrustPre = map[string]string{}
				}
				cur.TrustPre[ws[0]+" "+ws[1]] = strings.TrimSpace(fs[1])
			}
		case "allocator":
			// allocator <param> : <justification>
			if cur != nil {
				fs := strings.SplitN(rest, ":", 2)
				ws := strings.Fields(fs[0])
				if len(ws) != 1 || len(fs) != 2 {
					errf(l, "allocator <param> : <justification>")
					continue
				}
				if cur.AllocOnly == nil {
					cur.AllocOnly = map[string]string{}
				}
				cur.AllocOnly[ws[0]] = strings.TrimSpace(fs[1])
			}
		case "may_panic":
			if cur != nil {
				cur.MayPanic = true
			}
		case "check":
			if cur != nil && strings.TrimSpace(rest) == "nil" {
				cur.CheckNil = true
			}
			if cur != nil && strings.TrimSpace(rest) == "ownership" {
				cur.CheckOwnership = true
			}
			if cur != nil && strings.TrimSpace(rest) == "atcall only" {
				// the contract stays a trusted stub for callers; the body is executed only to check its `atcall` assertions
				cur.AtcallOnly = true
			}
			if cur != nil && strings.TrimSpace(rest) == "ownership only" {
				cur.CheckOwnership = true
				cur.OwnershipOnly = true
			}
		case "loop":
			if cur == nil {
				errf(l, "loop outside of func")
				continue
			}
			fs := strings.SplitN(rest, " ", 2)
			idx, err := strconv.Atoi(fs[0])
			if err != nil || len(fs) < 2 {
				errf(l, "bad loop clause")
				continue
			}
			lc := cur.Loops[idx]
			if lc == nil {
				lc = &LoopContract{}
				cur.Loops[idx] = lc
			}
			sub := strings.TrimSpace(fs[1])
			skw := sub
			srest := ""
			if i := strings.IndexAny(sub, " \t["); i >= 0 {
				skw = sub[:i]
				srest = strings.TrimLeft(sub[i:], " \t")
			}
			switch skw {
			case "invariant":
				if c := mkClause(l, srest); c != nil {
					lc.Invariants = append(lc.Invariants, c)
				}
			case "decreases":
				if c := mkClause(l, srest); c != nil {
					lc.Decreases = c
				}
			case "unfold":
				if c := mkClause(l, srest); c != nil {
					lc.Unfolds = append(lc.Unfolds, c)
				}
			case "assigns":
				lc.HasAssigns = true
				if strings.TrimSpace(srest) != "nothing" {
					for _, p := range splitTop(srest, ',') {
						if c := mkClause(l, p); c != nil {
							lc.Assigns = append(lc.Assigns, c)
						}
					}
				}
			case "unroll":
				k, err := strconv.Atoi(strings.TrimSpace(srest))
				if err != nil {
					errf(l, "bad unroll count")
					continue
				}
				lc.Unroll = k
			default:
				errf(l, "unknown loop clause %q", skw)
			}
		case "spec", "ghost":
			curLemma = nil
			cur = nil
			rec := false
			r := rest
			if strings.HasPrefix(r, "rec ") {
				rec = true
				r = strings.TrimSpace(r[4:])
			}
			body := ""
			if i := indexTop(r, "="); i >= 0 && !strings.HasPrefix(r[i:], "==") {
				body = strings.TrimSpace(r[i+1:])
				r = strings.TrimSpace(r[:i])
			}
			// r: name(params) result
			i := strings.Index(r, "(")
			if i < 0 {
				errf(l, "bad %s declaration", kw)
				continue
			}
			name := strings.TrimSpace(r[:i])
			fe, err := parser.ParseExpr("func" + r[i:])
			if err != nil {
				errf(l, "bad %s signature: %v", kw, err)
				continue
			}
			ft, ok := fe.(*ast.FuncType)
			if !ok || ft.Results == nil || len(ft.Results.List) != 1 {
				errf(l, "%s must have exactly one result type", kw)
				continue
			}
			if kw == "ghost" {
				cs.Ghosts[name] = &GhostDecl{Name: name, Params: ft.Params.List, Result: ft.Results.List[0].Type, PkgPath: pkgPath}
				continue
			}
			sf := &SpecFunc{Name: name, Params: ft.Params.List, Result: ft.Results.List[0].Type, Rec: rec, PkgPath: pkgPath, File: path, Line: l.line}
			if body != "" {
				e, err := parseSpecExpr(body)
				if err != nil {
					errf(l, "%v", err)
					continue
				}
				sf.Body = e
			}
			if _, dup := cs.Specs[name]; dup {
				errf(l, "duplicate spec function %s", name)
			}
			cs.Specs[name] = sf
		case "lemma":
			cur = nil
			lm := &Lemma{PkgPath: pkgPath}
			r := rest
			if m := labelRe.FindStringSubmatch(r); m != nil {
				lm.Label = m[1]
				r = r[len(m[0]):]
			}
			r = strings.TrimSpace(r)
			if !strings.HasPrefix(r, "(") {
				errf(l, "lemma needs a parameter list")
				continue
			}
			// find matching paren
			depth, j := 0, 0
			for j = 0; j < len(r); j++ {
				if r[j] == '(' {
					depth++
				} else if r[j] == ')' {
					depth--
					if depth == 0 {
						break
					}
				}
			}
			fe, err := parser.ParseExpr("func" + r[:j+1])
			if err != nil {
				errf(l, "bad lemma parameters: %v", err)
				continue
			}
			lm.Params = fe.(*ast.FuncType).Params.List
			c := mkClause(l, r[j+1:])
			if c == nil {
				continue
			}
			if c.Label == "" {
				c.Label = lm.Label
			}
			lm.Clause = c
			cs.Lemmas = append(cs.Lemmas, lm)
			curLemma = lm
		default:
			errf(l, "unknown clause keyword %q", kw)
		}
	}
	return nil
}

func isQualified(key string) bool {
	// pkg/path.Name or pkg/path.(*T).Name ; unqualified: Name, (*T).Name, (T).Name, T.Method
	if strings.HasPrefix(key, "(") {
		return false
	}
	i := strings.Index(key, ".(")
	if i > 0 {
		return true
	}
	// a.b — qualified if a contains '/' or is a known std package-like lower-case identifier followed by capital? ambiguous with T.Method (iface)
	if strings.Contains(key, "/") || strings.HasSuffix(key, ".*") {
		return true
	}
	parts := strings.Split(key, ".")
	if (len(parts) == 2 || len(parts) == 3) && parts[0] != "" && parts[0][0] >= 'a' && parts[0][0] <= 'z' && pkgLike[parts[0]] {
		return true
	}
	return false
}

// single-element import paths that may qualify names in contract files
var pkgLike = map[string]bool{"net": true, "bytes": true, "sort": true, "sync": true, "fmt": true, "errors": true, "math": true, "time": true, "strings": true, "context": true}

func pkgOfKey(key string) string {
	if i := strings.Index(key, ".("); i > 0 {
		return key[:i]
	}
	if !strings.Contains(key, "/") {
		if i := strings.Index(key, "."); i > 0 {
			return key[:i]
		}
	}
	if i := strings.LastIndex(key, "."); i > 0 {
		return key[:i]
	}
	return ""
}
