package main

// Per-function verification-condition generation over go/ssa (naive form):
// loop cutting / unrolling into an acyclic node graph, symbolic execution with
// state merging, obligations collected with their path condition.

import (
	"fmt"
	"go/token"
	"go/types"
	"sort"
	"strings"

	"golang.org/x/tools/go/ssa"
	"crypto/sha256"
	"encoding/hex"
)

type Obligation struct {
	Name   string
	Kind   string
	Fn     string
	Props  []string
	Hyps   []*Term
	PC     *Term
	Goal   *Term
	Pos    token.Position
	Cover  bool // expectation: satisfiable (vacuity / reachability check)
	Inputs []inputSym
	Note   string

	Status string // proved | refuted | unknown
	Solver string
	Time   float64
	Model  map[string]string
	Raw    string
	RP     *replayCtx
	// Definite: a refutation is reported as a violation even for an obligation that is not in the
	// baseline (lock-state preconditions: the ghost lock state is exact along every path)
	Definite bool
	// Parts: the goal is the conjunction of these goals; each is decided by its own (smaller) query
	Parts []*Term
}

// VCHash identifies the verification condition (hypotheses, path condition, goal and parts) independently of term
// numbering: two runs that generate the same condition get the same hash.
func (o *Obligation) VCHash() string {
	c := newCanonHasher()
	goal, pc := "", ""
	if o.Goal != nil {
		goal = c.hash(o.Goal)
	}
	if o.PC != nil {
		pc = c.hash(o.PC)
	}
	var ps, hs []string
	for _, p := range sortByCoarse(o.Parts) {
		ps = append(ps, c.hash(p))
	}
	for _, h := range sortByCoarse(o.Hyps) {
		hs = append(hs, c.hash(h))
	}
	sort.Strings(ps)
	sort.Strings(hs)
	// Facts attached to sub-terms (type ranges, allocation bounds, injectivity instances of the string ranking) are
	// left out: they are a function of the terms they are attached to, and which instances a query carries depends
	// on what else was verified earlier in the same run.
	sum := sha256.Sum256([]byte(strings.Join(hs, ",") + "|" + pc + "|" + goal + "|" + strings.Join(ps, ",")))
	return hex.EncodeToString(sum[:12])
}

type inputSym struct {
	Name string
	Term *Term
}

type state struct {
	pc      *Term
	cells   map[*cellRef]Value
	heaps   map[string]*Heap
	epochs  []epochAlt // alternatives for not yet materialised heap classes
	alloc   *Term
	defers  []*ssa.Defer
	dead    bool
	atLock  *state // snapshot right after the most recent exclusive acquisition of a guarding mutex
}

type epochAlt struct {
	sel   *Term
	tag   string
	bound *Term
}

func (s *state) clone() *state {
	n := &state{pc: s.pc, cells: make(map[*cellRef]Value, len(s.cells)), heaps: make(map[string]*Heap, len(s.heaps)), alloc: s.alloc}
	for k, v := range s.cells {
		n.cells[k] = v
	}
	for k, v := range s.heaps {
		n.heaps[k] = v
	}
	n.epochs = append([]epochAlt{}, s.epochs...)
	n.atLock = s.atLock
	n.defers = append([]*ssa.Defer{}, s.defers...)
	return n
}

type loopInfo struct {
	header *ssa.BasicBlock
	body   map[*ssa.BasicBlock]bool
	index  int // 1-based, source order
	lc     *LoopContract
	pos    token.Pos
	parent *loopInfo
}

type node struct {
	blk     *ssa.BasicBlock
	ctx     string
	kind    int // 0 normal, 1 back-edge sink of a cut loop, 2 unwinding assertion
	loop    *loopInfo
	succs   []*nedge
	in      []inEdge
	visited bool
	order   int
}

type nedge struct {
	to      *node
	succIdx int // index in blk.Succs
}

type inEdge struct {
	st       *state
	from     *ssa.BasicBlock
	fromNode *node
}

type envKey struct {
	ctx string
	v   ssa.Value
}

type executor struct {
	eng      *Engine
	fn       *ssa.Function
	key      string
	contract *Contract
	props    []string
	env      map[envKey]Value
	cells    map[*ssa.Alloc]*cellRef
	cellName map[string]*cellRef
	loops    []*loopInfo
	loopOf   map[*ssa.BasicBlock]*loopInfo // innermost loop headed by block
	nodes    map[string]*node
	entry    *state // entry snapshot for old()
	params   map[string]Value
	assumes  []*Term
	// assumeNode: node of the (acyclic) execution graph at which a hypothesis was first assumed; an
	// obligation only takes hypotheses assumed at its own node or an ancestor (others are guarded by a
	// path condition that is false or irrelevant there, so dropping them is sound and keeps queries small)
	assumeNode map[*Term]*node
	anc        map[*node]map[*node]bool
	obls     []*Obligation
	names    map[string]int
	curCtx   string
	curNode  *node
	backEdgeStates []*state // states of the individual back edges while a loop's invariants are re-checked
	depth    int
	abstracted map[string]int
	inlined  map[string]bool
	callees  map[string]bool
	inputs   []inputSym
	retNodes int
	results  []Value // merged at return: handled through obligations directly
	uid      int
	inlineRet *inlineCollector
	parent   *executor
	safety   bool
	ctrStack []string
	paramVals []Value
	loopFrames map[*loopInfo]*loopFrame
	idxTerms []*Term
	readLog  map[string]bool
	heapLocals map[string]Value
	// privateLocals: address-taken locals whose address only reaches loads, stores and closures that are
	// deferred here (never a callee): a call cannot change them
	privateLocals []*ssa.Alloc
	curLoop  *loopInfo
	freeVars map[string]Value
	aliases  map[string]string // old local name -> current name (pure rename since the baseline)
	inSpec   bool // executing code on behalf of a specification (no obligations)
	idxSeen  map[int]bool
}

type inlineCollector struct {
	states []*state
	vals   [][]Value
}

func (ex *executor) fresh(prefix string) string {
	return TS.Fresh(prefix)
}

// ---------- loops ----------

func (ex *executor) findLoops() {
	fn := ex.fn
	ex.loopOf = map[*ssa.BasicBlock]*loopInfo{}
	byHeader := map[*ssa.BasicBlock]*loopInfo{}
	for _, b := range fn.Blocks {
		for _, s := range b.Succs {
			if s.Dominates(b) {
				li := byHeader[s]
				if li == nil {
					li = &loopInfo{header: s, body: map[*ssa.BasicBlock]bool{s: true}}
					byHeader[s] = li
				}
				// blocks reaching b without passing through s
				var stack []*ssa.BasicBlock
				if !li.body[b] {
					li.body[b] = true
					stack = append(stack, b)
				}
				for len(stack) > 0 {
					x := stack[len(stack)-1]
					stack = stack[:len(stack)-1]
					for _, p := range x.Preds {
						if !li.body[p] {
							li.body[p] = true
							stack = append(stack, p)
						}
					}
				}
			}
		}
	}
	for _, li := range byHeader {
		li.pos = token.NoPos
		for b := range li.body {
			for _, in := range b.Instrs {
				if p := in.Pos(); p.IsValid() && (li.pos == token.NoPos || p < li.pos) {
					li.pos = p
				}
			}
		}
		ex.loops = append(ex.loops, li)
	}
	sort.Slice(ex.loops, func(i, j int) bool {
		if ex.loops[i].pos != ex.loops[j].pos {
			return ex.loops[i].pos < ex.loops[j].pos
		}
		return ex.loops[i].header.Index < ex.loops[j].header.Index
	})
	for i, li := range ex.loops {
		li.index = i + 1
		ex.loopOf[li.header] = li
		if ex.contract != nil {
			li.lc = ex.contract.Loops[li.index]
		}
	}
	// parents: smallest strictly containing loop
	for _, li := range ex.loops {
		for _, lj := range ex.loops {
			if li != lj && lj.body[li.header] && len(lj.body) > len(li.body) {
				if li.parent == nil || len(lj.body) < len(li.parent.body) {
					li.parent = lj
				}
			}
		}
	}
}

func (li *loopInfo) unrolled() bool { return li.lc != nil && li.lc.Unroll > 0 }

// ---------- context handling for unrolled loops ----------

type ctxEntry struct {
	loop int
	iter int
}

func parseCtx(s string) []ctxEntry {
	if s == "" {
		return nil
	}
	var out []ctxEntry
	for _, p := range strings.Split(s, "/") {
		var e ctxEntry
		fmt.Sscanf(p, "L%d:%d", &e.loop, &e.iter)
		out = append(out, e)
	}
	return out
}
func fmtCtx(es []ctxEntry) string {
	var ps []string
	for _, e := range es {
		ps = append(ps, fmt.Sprintf("L%d:%d", e.loop, e.iter))
	}
	return strings.Join(ps, "/")
}

func (ex *executor) loopByIndex(i int) *loopInfo { return ex.loops[i-1] }

func (ex *executor) getNode(b *ssa.BasicBlock, ctx string, kind int, li *loopInfo) *node {
	k := fmt.Sprintf("%d|%s|%d", b.Index, ctx, kind)
	if n, ok := ex.nodes[k]; ok {
		return n
	}
	n := &node{blk: b, ctx: ctx, kind: kind, loop: li}
	ex.nodes[k] = n
	if kind == 0 {
		ex.expand(n)
	}
	return n
}

func (ex *executor) expand(n *node) {
	b := n.blk
	ctx := parseCtx(n.ctx)
	for i, s := range b.Succs {
		// drop context entries of loops that s is not part of
		var nctx []ctxEntry
		for _, e := range ctx {
			if ex.loopByIndex(e.loop).body[s] {
				nctx = append(nctx, e)
			}
		}
		var target *node
		if li := ex.loopOf[s]; li != nil {
			inLoop := li.body[b]
			if li.unrolled() {
				if inLoop {
					// back edge: next iteration
					var cur int
					for _, e := range nctx {
						if e.loop == li.index {
							cur = e.iter
						}
					}
					if cur+1 > li.lc.Unroll {
						target = ex.getNode(s, fmtCtx(stripLoop(nctx, li.index)), 2, li)
					} else {
						target = ex.getNode(s, fmtCtx(setIter(nctx, li.index, cur+1)), 0, li)
					}
				} else {
					target = ex.getNode(s, fmtCtx(setIter(nctx, li.index, 1)), 0, li)
				}
			} else {
				if inLoop {
					target = ex.getNode(s, fmtCtx(nctx), 1, li)
				} else {
					target = ex.getNode(s, fmtCtx(nctx), 0, li)
				}
			}
		} else {
			target = ex.getNode(s, fmtCtx(nctx), 0, nil)
		}
		n.succs = append(n.succs, &nedge{to: target, succIdx: i})
	}
}

func stripLoop(es []ctxEntry, loop int) []ctxEntry {
	var out []ctxEntry
	for _, e := range es {
		if e.loop != loop {
			out = append(out, e)
		}
	}
	return out
}
func setIter(es []ctxEntry, loop, iter int) []ctxEntry {
	out := stripLoop(es, loop)
	return append(out, ctxEntry{loop, iter})
}

func (ex *executor) topo(entry *node) []*node {
	var order []*node
	var visit func(n *node)
	visit = func(n *node) {
		if n.visited {
			return
		}
		n.visited = true
		for _, e := range n.succs {
			visit(e.to)
		}
		order = append(order, n)
	}
	visit(entry)
	for i, j := 0, len(order)-1; i < j; i, j = i+1, j-1 {
		order[i], order[j] = order[j], order[i]
	}
	return order
}

// ---------- env ----------

func (ex *executor) setVal(v ssa.Value, val Value) {
	ex.env[envKey{ex.curCtx, v}] = val
}

func (ex *executor) lookupEnv(v ssa.Value) (Value, bool) {
	ctx := ex.curCtx
	for {
		if val, ok := ex.env[envKey{ctx, v}]; ok {
			return val, true
		}
		if ctx == "" {
			break
		}
		if i := strings.LastIndex(ctx, "/"); i >= 0 {
			ctx = ctx[:i]
		} else {
			ctx = ""
		}
	}
	// any context (value defined in an inner unrolled iteration, used after it)
	var best Value
	found := false
	bestCtx := ""
	for k, val := range ex.env {
		if k.v == v && (!found || k.ctx > bestCtx) {
			best, found, bestCtx = val, true, k.ctx
		}
	}
	return best, found
}

// ---------- obligations ----------

func (ex *executor) oblName(kind, text string) string {
	base := fmt.Sprintf("%s/%s:%s", ex.shortKey(), kind, text)
	if ex.curCtx != "" {
		base += "@" + strings.ReplaceAll(ex.curCtx, "/", ",")
	}
	ex.names[base]++
	if n := ex.names[base]; n > 1 {
		return fmt.Sprintf("%s#%d", base, n)
	}
	return base
}

func (ex *executor) root() *executor {
	r := ex
	for r.parent != nil {
		r = r.parent
	}
	return r
}

func (ex *executor) shortKey() string { return shortFnKey(ex.root().key) }

func shortFnKey(key string) string {
	// strip module prefix
	k := strings.ReplaceAll(key, "github.com/LiskHQ/lisk-engine/pkg/", "")
	return k
}

func (ex *executor) addObligation(st *state, kind, text string, goal *Term, pos token.Pos) *Obligation {
	r := ex.root()
	if goal == True {
		// trivially discharged; still counted
	}
	o := &Obligation{Kind: kind, Fn: r.key, Props: r.props, PC: st.pc, Goal: goal}
	if ex.parent != nil {
		text = text + " [in " + shortFnKey(ex.key) + "]"
	}
	o.Name = r.oblNameFor(ex, kind, text)
	o.Hyps = r.relevantAssumes()
	if pos.IsValid() {
		o.Pos = ex.eng.fset.Position(pos)
	}
	o.Inputs = r.inputs
	if r.fn != nil {
		o.RP = &replayCtx{ex: r, fn: r.fn, params: r.paramVals}
	}
	r.obls = append(r.obls, o)
	return o
}

func (r *executor) oblNameFor(ex *executor, kind, text string) string {
	base := fmt.Sprintf("%s/%s:%s", r.shortKey(), kind, text)
	if ex.curCtx != "" {
		base += "@" + strings.ReplaceAll(ex.curCtx, "/", ",")
	}
	r.names[base]++
	if n := r.names[base]; n > 1 {
		return fmt.Sprintf("%s#%d", base, n)
	}
	return base
}

func (ex *executor) assume(st *state, fact *Term) {
	if fact == True {
		return
	}
	r := ex.root()
	h := Implies(st.pc, fact)
	r.assumes = append(r.assumes, h)
	if r.curNode != nil {
		if r.assumeNode == nil {
			r.assumeNode = map[*Term]*node{}
		}
		if _, seen := r.assumeNode[h]; !seen {
			r.assumeNode[h] = r.curNode
		}
	}
}

// ---------- heaps in states ----------

func (ex *executor) heapOf(st *state, cls *HeapClass) *Heap {
	if rl := ex.root().readLog; rl != nil {
		rl[cls.Name] = true
	}
	if h, ok := st.heaps[cls.Name]; ok {
		return h
	}
	var h *Heap
	for i := len(st.epochs) - 1; i >= 0; i-- {
		e := st.epochs[i]
		b := ex.eng.baseHeap(cls, e.tag, e.bound)
		if h == nil {
			h = b
		} else {
			h = HeapIte(e.sel, b, h)
		}
	}
	st.heaps[cls.Name] = h
	return h
}

func (ex *executor) havocAll(st *state, why string) {
	type kept struct {
		a *Addr
		v Value
	}
	var keep []kept
	if !strings.HasPrefix(why, "go statement") {
		for e := ex; e != nil; e = e.parent {
			for _, al := range e.privateLocals {
				pv, ok := e.env[envKey{e.curCtx, ssa.Value(al)}]
				if !ok {
					pv, ok = e.env[envKey{"", ssa.Value(al)}]
				}
				if !ok || len(pv.C) != 1 {
					continue
				}
				a := ex.addrOf(pv)
				keep = append(keep, kept{a, ex.load(st, a)})
			}
		}
	}
	defer func() {
		for _, k := range keep {
			ex.store(st, k.a, k.v)
		}
	}()
	// `stable` locations of the function under verification survive (whole heap classes)
	type savedHeap struct {
		name string
		h    *Heap
	}
	var stable []savedHeap
	r := ex.root()
	if rc := r.contract; rc != nil && len(rc.Stable) > 0 {
		env := &specEnv{ex: r, st: st, old: st, vars: map[string]Value{}, pkgPath: rc.PkgPath}
		for _, c := range rc.Stable {
			func() {
				defer func() {
					if x := recover(); x != nil {
						if _, ok := x.(unsupported); !ok {
							panic(x)
						}
					}
				}()
				for _, l := range r.evalLoc(c, env) {
					if l.region == nil {
						continue
					}
					for _, cl := range l.classes {
						stable = append(stable, savedHeap{cl.Name, ex.heapOf(st, cl)})
					}
				}
				r.abstracted["stable (assumed untouched by callees): "+c.Text+" - "+c.Label]++
			}()
		}
	}
	tag := ex.fresh("e")
	na := FreshVar("alloc", IntSort)
	ex.assume(st, ILe(st.alloc, na))
	st.alloc = na
	st.heaps = map[string]*Heap{}
	st.epochs = []epochAlt{{sel: True, tag: tag, bound: na}}
	for _, sh := range stable {
		st.heaps[sh.name] = sh.h
	}
	r.abstracted["havoc-all: "+why]++
}

// ---------- merging ----------

func (ex *executor) mergeStates(ins []*state) *state {
	var live []*state
	for _, s := range ins {
		if s != nil && !s.dead && s.pc != False {
			live = append(live, s)
		}
	}
	if len(live) == 0 {
		return nil
	}
	if len(live) == 1 {
		return live[0].clone()
	}
	res := live[len(live)-1].clone()
	for i := len(live) - 2; i >= 0; i-- {
		a := live[i]
		sel := a.pc
		// cells
		for c, bv := range res.cells {
			if av, ok := a.cells[c]; ok {
				res.cells[c] = valueIte(sel, av, bv)
			}
		}
		for c, av := range a.cells {
			if _, ok := res.cells[c]; !ok {
				res.cells[c] = av
			}
		}
		// heaps: materialise classes present in either
		names := map[string]bool{}
		for n := range res.heaps {
			names[n] = true
		}
		for n := range a.heaps {
			names[n] = true
		}
		sameEpochs := epochsEqual(a.epochs, res.epochs)
		for n := range names {
			cls := ex.eng.classes[n]
			ha := ex.heapOf(a, cls)
			hb := ex.heapOf(res, cls)
			res.heaps[n] = HeapIte(sel, ha, hb)
		}
		if !sameEpochs {
			var ne []epochAlt
			for _, e := range a.epochs {
				ne = append(ne, epochAlt{sel: And(sel, e.sel), tag: e.tag, bound: e.bound})
			}
			for _, e := range res.epochs {
				ne = append(ne, epochAlt{sel: And(Not(sel), e.sel), tag: e.tag, bound: e.bound})
			}
			// last alternative acts as default
			res.epochs = ne
		}
		res.alloc = Ite(sel, a.alloc, res.alloc)
		res.pc = simplifyOr(a.pc, res.pc)
		if len(a.defers) != len(res.defers) {
			// differing defer stacks: keep the longer (conservative for unlocks is not sound in general)
			ex.root().abstracted["defer stacks differ at join"]++
			if len(a.defers) > len(res.defers) {
				res.defers = append([]*ssa.Defer{}, a.defers...)
			}
		}
	}
	return res
}

func epochsEqual(a, b []epochAlt) bool {
	if len(a) != len(b) {
		return false
	}
	for i := range a {
		if a[i].tag != b[i].tag || a[i].sel != b[i].sel {
			return false
		}
	}
	return true
}

// simplifyOr computes a ∨ b, recognising (x ∧ c) ∨ (x ∧ ¬c) = x on conjunction lists.
func simplifyOr(a, b *Term) *Term {
	la, lb := conjuncts(a), conjuncts(b)
	// common prefix/set
	inB := map[int]bool{}
	for _, t := range lb {
		inB[t.id] = true
	}
	var common, ra, rb []*Term
	inC := map[int]bool{}
	for _, t := range la {
		if inB[t.id] {
			common = append(common, t)
			inC[t.id] = true
		} else {
			ra = append(ra, t)
		}
	}
	for _, t := range lb {
		if !inC[t.id] {
			rb = append(rb, t)
		}
	}
	if len(ra) == 0 || len(rb) == 0 {
		return And(common...)
	}
	if len(ra) == 1 && len(rb) == 1 && Not(ra[0]) == rb[0] {
		return And(common...)
	}
	return And(append(common, Or(And(ra...), And(rb...)))...)
}

func conjuncts(t *Term) []*Term {
	if t.op == "and" {
		return t.args
	}
	if t == True {
		return nil
	}
	return []*Term{t}
}

// ---------- driver ----------

type verifyResult struct {
	obls       []*Obligation
	err        error
	abstracted map[string]int
	inlined    []string
	callees    []string
}

func (eng *Engine) newExecutor(fn *ssa.Function, key string, c *Contract, parent *executor) *executor {
	ex := &executor{eng: eng, fn: fn, key: key, contract: c, env: map[envKey]Value{}, cells: map[*ssa.Alloc]*cellRef{},
		cellName: map[string]*cellRef{}, nodes: map[string]*node{}, params: map[string]Value{}, names: map[string]int{},
		abstracted: map[string]int{}, inlined: map[string]bool{}, callees: map[string]bool{}, parent: parent}
	if c != nil {
		ex.props = c.Props
	}
	if parent != nil {
		ex.depth = parent.depth + 1
	}
	return ex
}

func (ex *executor) classifyCells() {
	n := 0
	for _, b := range ex.fn.Blocks {
		for _, in := range b.Instrs {
			a, ok := in.(*ssa.Alloc)
			if !ok {
				continue
			}
			isCell := true
			if refs := a.Referrers(); refs != nil {
				for _, r := range *refs {
					switch u := r.(type) {
					case *ssa.Store:
						if u.Addr != a || u.Val == a {
							isCell = false
						}
					case *ssa.UnOp:
						if u.Op != token.MUL {
							isCell = false
						}
					case *ssa.DebugRef:
					default:
						isCell = false
					}
				}
			}
			if !isCell {
				continue
			}
			n++
			elem := a.Type().Underlying().(*types.Pointer).Elem()
			c := &cellRef{name: a.Comment, typ: elem, id: n}
			ex.cells[a] = c
			if a.Comment != "" {
				name := a.Comment
				if _, dup := ex.cellName[name]; dup {
					k := 2
					for {
						nn := fmt.Sprintf("%s_%d", name, k)
						if _, d := ex.cellName[nn]; !d {
							name = nn
							break
						}
						k++
					}
				}
				ex.cellName[name] = c
			}
		}
	}
	for _, b := range ex.fn.Blocks {
		for _, in := range b.Instrs {
			a, ok := in.(*ssa.Alloc)
			if !ok || ex.cells[a] != nil || a.Comment == "" {
				continue
			}
			private := true
			if refs := a.Referrers(); refs != nil {
				for _, r := range *refs {
					switch u := r.(type) {
					case *ssa.Store:
						if u.Addr != ssa.Value(a) || u.Val == ssa.Value(a) {
							private = false
						}
					case *ssa.UnOp:
						if u.Op != token.MUL {
							private = false
						}
					case *ssa.DebugRef:
					case *ssa.MakeClosure:
						// the closure itself must only be deferred in this function
						if crefs := u.Referrers(); crefs != nil {
							for _, cr := range *crefs {
								switch cr.(type) {
								case *ssa.Defer, *ssa.DebugRef:
								default:
									private = false
								}
							}
						}
					default:
						private = false
					}
				}
			}
			if private {
				ex.privateLocals = append(ex.privateLocals, a)
			}
		}
	}
}

// relevantAssumes: hypotheses assumed before the body started, at the current node, or at one of its ancestors.
func (r *executor) relevantAssumes() []*Term {
	out := make([]*Term, 0, len(r.assumes))
	var anc map[*node]bool
	if r.curNode != nil && r.anc != nil {
		anc = r.anc[r.curNode]
	}
	for _, h := range r.assumes {
		if n := r.assumeNode[h]; n != nil && anc != nil && n != r.curNode && !anc[n] {
			continue
		}
		out = append(out, h)
	}
	return out
}
