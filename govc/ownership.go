package main

// Ownership obligations for goroutines started in loops (errgroup.Go / go statements with a
// closure): every memory location the closure writes must be (a) local to the closure, (b) a
// per-iteration variable, (c) an element of a shared slice at an index that is an injective
// function of a per-iteration variable, or (d) written under a mutex the closure locks.
// These are frame conditions decided on the SSA of the real code (no solver needed).

import (
	"fmt"
	"go/token"
	"strings"

	"golang.org/x/tools/go/ssa"
)

func (ex *executor) ownershipObligations(st *state) {
	fn := ex.fn
	for _, b := range fn.Blocks {
		for _, in := range b.Instrs {
			var mc *ssa.MakeClosure
			switch t := in.(type) {
			case *ssa.Go:
				if m, ok := t.Call.Value.(*ssa.MakeClosure); ok {
					mc = m
				}
			case *ssa.Call:
				if c := t.Call.StaticCallee(); c != nil && strings.HasSuffix(fnKey(c), "errgroup.(*Group).Go") && len(t.Call.Args) == 2 {
					if m, ok := t.Call.Args[1].(*ssa.MakeClosure); ok {
						mc = m
					}
				}
			}
			if mc == nil {
				continue
			}
			li := ex.innermostLoop(b)
			if li == nil {
				continue
			}
			ex.checkClosureWrites(st, mc, li, in.Pos())
		}
	}
}

func (ex *executor) innermostLoop(b *ssa.BasicBlock) *loopInfo {
	var best *loopInfo
	for _, li := range ex.loops {
		if li.body[b] && (best == nil || len(li.body) < len(best.body)) {
			best = li
		}
	}
	return best
}

func (ex *executor) checkClosureWrites(st *state, mc *ssa.MakeClosure, li *loopInfo, pos token.Pos) {
	cfn := mc.Fn.(*ssa.Function)
	// classify captured variables
	perIter := map[*ssa.FreeVar]bool{}
	names := map[*ssa.FreeVar]string{}
	for i, fv := range cfn.FreeVars {
		names[fv] = fv.Name()
		if i < len(mc.Bindings) {
			if a, ok := mc.Bindings[i].(*ssa.Alloc); ok && li.body[a.Block()] {
				perIter[fv] = true
			}
		}
	}
	locks := false
	for _, b := range cfn.Blocks {
		for _, in := range b.Instrs {
			if c, ok := in.(ssa.CallInstruction); ok {
				if sc := c.Common().StaticCallee(); sc != nil {
					k := fnKey(sc)
					if k == "sync.(*Mutex).Lock" || k == "sync.(*RWMutex).Lock" {
						locks = true
					}
				}
			}
		}
	}
	// rootOf: the captured variable an address / value derives from
	var rootOf func(v ssa.Value, depth int) (*ssa.FreeVar, bool)
	rootOf = func(v ssa.Value, depth int) (*ssa.FreeVar, bool) {
		if depth > 8 {
			return nil, false
		}
		switch t := v.(type) {
		case *ssa.FreeVar:
			return t, true
		case *ssa.UnOp:
			if t.Op == token.MUL {
				return rootOf(t.X, depth+1)
			}
		case *ssa.FieldAddr:
			return rootOf(t.X, depth+1)
		case *ssa.IndexAddr:
			return rootOf(t.X, depth+1)
		case *ssa.Slice:
			return rootOf(t.X, depth+1)
		}
		return nil, false
	}
	// injective index: v, v±c, with v a load of a per-iteration captured variable
	var perIterExpr func(v ssa.Value, depth int) bool
	perIterExpr = func(v ssa.Value, depth int) bool {
		if depth > 6 {
			return false
		}
		switch t := v.(type) {
		case *ssa.UnOp:
			if t.Op == token.MUL {
				if fv, ok := t.X.(*ssa.FreeVar); ok {
					return perIter[fv]
				}
			}
		case *ssa.BinOp:
			if t.Op == token.ADD || t.Op == token.SUB {
				l, r := perIterExpr(t.X, depth+1), perIterExpr(t.Y, depth+1)
				return (l && !r) || (r && !l && t.Op == token.ADD)
			}
		case *ssa.Convert:
			return perIterExpr(t.X, depth+1)
		}
		return false
	}
	seen := map[string]bool{}
	// reads: a captured variable that lives across iterations and that the spawning loop itself stores to (a loop
	// variable of a `range` / `for` statement before Go 1.22, an accumulator) must not be read by the goroutine -
	// the loop's next store races with the read, and the goroutine may see a later iteration's value
	for i, fv := range cfn.FreeVars {
		if perIter[fv] || i >= len(mc.Bindings) {
			continue
		}
		a, ok := mc.Bindings[i].(*ssa.Alloc)
		if !ok {
			continue
		}
		storedInLoop := false
		for lb := range li.body {
			for _, in := range lb.Instrs {
				if st2, ok := in.(*ssa.Store); ok && st2.Addr == ssa.Value(a) {
					storedInLoop = true
				}
			}
		}
		if !storedInLoop {
			continue
		}
		read := token.NoPos
		for _, b := range cfn.Blocks {
			for _, in := range b.Instrs {
				if u, ok := in.(*ssa.UnOp); ok && u.Op == token.MUL && u.X == ssa.Value(fv) && read == token.NoPos {
					read = u.Pos()
					if read == token.NoPos {
						read = pos
					}
				}
			}
		}
		if read == token.NoPos || locks {
			continue
		}
		text := fmt.Sprintf("goroutine %s started in loop %d reads captured variable %s, which the loop assigns in every iteration", strings.TrimPrefix(cfn.Name(), ex.fn.Name()), li.index, names[fv])
		o := ex.addObligation(st, "ownership", text, False, read)
		o.PC = True
		o.Goal = False
		o.Hyps = nil
		o.Definite = true
	}
	for _, b := range cfn.Blocks {
		for _, in := range b.Instrs {
			s, ok := in.(*ssa.Store)
			if !ok {
				continue
			}
			var what string
			good := false
			if fv, ok := s.Addr.(*ssa.FreeVar); ok {
				what = "captured variable " + names[fv]
				good = perIter[fv]
			} else if ia, ok := s.Addr.(*ssa.IndexAddr); ok {
				fv, rooted := rootOf(ia.X, 0)
				if !rooted {
					continue
				}
				what = fmt.Sprintf("element of captured %s", names[fv])
				good = perIterExpr(ia.Index, 0) || perIter[fv]
			} else if fa, ok := s.Addr.(*ssa.FieldAddr); ok {
				fv, rooted := rootOf(fa.X, 0)
				if !rooted {
					continue
				}
				what = fmt.Sprintf("field of object reached from captured %s", names[fv])
				good = perIter[fv]
			} else {
				continue
			}
			if locks {
				good = true
			}
			if seen[what] {
				continue
			}
			seen[what] = true
			goal := True
			if !good {
				goal = False
			}
			text := fmt.Sprintf("goroutine %s started in loop %d writes %s", strings.TrimPrefix(cfn.Name(), ex.fn.Name()), li.index, what)
			o := ex.addObligation(st, "ownership", text, Implies(st.pc, goal), s.Pos())
			if !good {
				o.PC = True
				o.Goal = False
				o.Hyps = nil
				o.Definite = true
			}
		}
	}
}
