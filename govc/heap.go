package main

// Heaps as functional update chains with read-over-write resolution in the
// engine (no SMT array theory): a heap class maps a key tuple to one component
// term.  Base heaps are uninterpreted functions.

import (
	"fmt"
	"strings"
)

type heapKind int

const (
	hBase heapKind = iota
	hStore
	hHavoc
	hIte
	hZero // fresh array / map: every key whose first component equals key[0] reads val
	hConst // every key reads val
	hCopy // key = [dstArr, dstOff, n, srcArr, srcOff]; a = source heap snapshot
	hStr  // bytes of a string: key[0]=array identity, key[1]=string identity
)

type Heap struct {
	kind heapKind
	id   int
	cls  *HeapClass
	// base / havoc: uf name
	uf string
	// store
	prev *Heap
	key  []*Term
	val  *Term
	// havoc: cond(key) says where the fresh uf applies; nil = everywhere
	cond func(key []*Term) *Term
	// ite
	c    *Term
	a, b *Heap
	depth int
	// allocation bound for reference-valued components read from base/havoc
	bound *Term
	tag   string
}

type HeapClass struct {
	Name string
	Key  []Sort
	Val  Sort
	// IsRef: the stored component is an object identity (facts about allocation apply)
	IsRef bool
	// SliceGroup: the four classes (arr, off, len, cap) this component belongs to, if it is part of a slice header
	SliceGroup []*HeapClass
	// post-processing of freshly read base values (well-formedness facts)
	OnBaseRead func(t *Term)
}

var heapCounter int

func nextHeapID() int { heapCounter++; return heapCounter }

func newHeap(k heapKind, cls *HeapClass) *Heap {
	heapCounter++
	return &Heap{kind: k, id: heapCounter, cls: cls}
}

func BaseHeap(cls *HeapClass, tag string) *Heap {
	h := newHeap(hBase, cls)
	h.uf = cls.Name + "@" + tag
	h.tag = tag
	return h
}

func (h *Heap) Store(key []*Term, val *Term) *Heap {
	if val.sort != h.cls.Val {
		panic(fmt.Sprintf("heap %s store sort mismatch %v vs %v", h.cls.Name, val.sort, h.cls.Val))
	}
	n := newHeap(hStore, h.cls)
	n.prev, n.key, n.val = h, key, val
	n.depth = h.depth + 1
	return n
}

func (h *Heap) Havoc(tag string, cond func(key []*Term) *Term) *Heap {
	n := newHeap(hHavoc, h.cls)
	n.prev = h
	n.uf = h.cls.Name + "@" + tag
	n.tag = tag
	n.cond = cond
	n.depth = h.depth + 1
	return n
}

func HeapIte(c *Term, a, b *Heap) *Heap {
	if a == b {
		return a
	}
	if c == True {
		return a
	}
	if c == False {
		return b
	}
	// common case: a = store(b', ...) chains diverging from a common ancestor are kept as-is
	n := newHeap(hIte, a.cls)
	n.c, n.a, n.b = c, a, b
	n.depth = a.depth
	if b.depth > n.depth {
		n.depth = b.depth
	}
	n.depth++
	return n
}

type readKey struct {
	heap int
	key  string
}

var readMemo = map[readKey]*Term{}

func keyStr(key []*Term) string {
	var sb strings.Builder
	for _, k := range key {
		fmt.Fprintf(&sb, "%d,", k.id)
	}
	return sb.String()
}

func keysEq(a, b []*Term) *Term {
	cs := make([]*Term, len(a))
	for i := range a {
		cs[i] = Eq(a[i], b[i])
	}
	return And(cs...)
}

func (h *Heap) Read(key []*Term) *Term {
	if len(key) != len(h.cls.Key) {
		panic(fmt.Sprintf("heap %s: key arity %d vs %d", h.cls.Name, len(key), len(h.cls.Key)))
	}
	rk := readKey{h.id, keyStr(key)}
	if t, ok := readMemo[rk]; ok {
		return t
	}
	var r *Term
	switch h.kind {
	case hBase:
		r = App(h.uf, h.cls.Val, key...)
		h.registerHook()
		TS.hooked[r.id] = true
		h.baseFacts(r, key)
	case hStore:
		e := keysEq(key, h.key)
		if e == True {
			r = h.val
		} else if e == False {
			r = h.prev.Read(key)
		} else {
			r = Ite(e, h.val, h.prev.Read(key))
		}
	case hHavoc:
		var c *Term = True
		if h.cond != nil {
			c = h.cond(key)
		}
		if c == False {
			r = h.prev.Read(key)
		} else {
			f := App(h.uf, h.cls.Val, key...)
			h.registerHook()
			TS.hooked[f.id] = true
			h.baseFacts(f, key)
			if c == True {
				r = f
			} else {
				r = Ite(c, f, h.prev.Read(key))
			}
		}
	case hIte:
		// specialise the key under the branch condition: ite(c, k1, k2) reads k1 in a and k2 in b
		ka := make([]*Term, len(key))
		kb := make([]*Term, len(key))
		for i, k := range key {
			ka[i] = specialize(k, h.c, true, 3)
			kb[i] = specialize(k, h.c, false, 3)
		}
		r = Ite(h.c, h.a.Read(ka), h.b.Read(kb))
	case hCopy:
		dstArr, dstOff, n, srcArr, srcOff := h.key[0], h.key[1], h.key[2], h.key[3], h.key[4]
		in := And(Eq(key[0], dstArr), BVCmp("bvsle", dstOff, key[1]), BVCmp("bvslt", key[1], BVBin("bvadd", dstOff, n)))
		if in == False {
			r = h.prev.Read(key)
		} else {
			sk := []*Term{srcArr, BVBin("bvadd", srcOff, BVBin("bvsub", key[1], dstOff))}
			r = Ite(in, h.a.Read(sk), h.prev.Read(key))
		}
	case hConst:
		r = h.val
	case hZero:
		r = Ite(Eq(key[0], h.key[0]), h.val, h.prev.Read(key))
	case hStr:
		r = Ite(Eq(key[0], h.key[0]), App("strbyte", BV(8), h.key[1], key[1]), h.prev.Read(key))
	}
	readMemo[rk] = r
	return r
}

func (h *Heap) baseFacts(r *Term, key []*Term) {
	if g := h.cls.SliceGroup; g != nil && !r.bound {
		arr := App(g[0].Name+"@"+h.tag, IntSort, key...)
		off := App(g[1].Name+"@"+h.tag, BV(64), key...)
		ln := App(g[2].Name+"@"+h.tag, BV(64), key...)
		cp := App(g[3].Name+"@"+h.tag, BV(64), key...)
		sliceFacts(arr, off, ln, cp)
	}
	if h.cls.OnBaseRead != nil {
		h.cls.OnBaseRead(r)
	}
	if h.cls.IsRef {
		if h.bound != nil {
			// only locations that existed when this heap version was current hold references to
			// objects allocated before it; locations of later allocations read as junk here
			f := And(ILe(IntC(0), r), ILt(r, h.bound))
			if len(key) > 0 && key[0].sort.K == SInt && len(h.cls.Key) > 0 && (strings.HasPrefix(h.cls.Name, "P:") || strings.HasPrefix(h.cls.Name, "E:") || strings.HasPrefix(h.cls.Name, "M:")) {
				f = Implies(ILt(key[0], h.bound), f)
			}
			AddFact(r, And(ILe(IntC(0), r), f))
		} else {
			AddFact(r, ILe(IntC(0), r))
		}
	}
}

func (h *Heap) describe(d int) string {
	if d == 0 {
		return "…"
	}
	switch h.kind {
	case hBase:
		return "base(" + h.tag + ")"
	case hStore:
		return fmt.Sprintf("store[%s := %s] <- %s", h.key[0].Short(), h.val.Short(), h.prev.describe(d-1))
	case hHavoc:
		return "havoc(" + h.tag + ") <- " + h.prev.describe(d-1)
	case hIte:
		return fmt.Sprintf("ite(%s, %s, %s)", h.c.Short(), h.a.describe(d-1), h.b.describe(d-1))
	case hConst:
		return "const"
	case hZero:
		return "zero <- " + h.prev.describe(d-1)
	case hCopy:
		return "copy <- " + h.prev.describe(d-1)
	case hStr:
		return "str <- " + h.prev.describe(d-1)
	}
	return "?"
}

func (h *Heap) registerHook() {
	if _, ok := TS.hooks[h.uf]; ok {
		return
	}
	hh := h
	TS.hooks[h.uf] = func(t *Term) {
		if len(t.args) == len(hh.cls.Key) {
			hh.baseFacts(t, t.args)
		}
	}
}

// specialize simplifies t under the assumption that cond has truth value val
// (only ite nodes on exactly this condition are resolved, to a bounded depth).
func specialize(t *Term, cond *Term, val bool, depth int) *Term {
	if depth == 0 || len(t.args) == 0 || t.bound {
		return t
	}
	if t.op == "ite" && t.args[0] == cond {
		if val {
			return specialize(t.args[1], cond, val, depth-1)
		}
		return specialize(t.args[2], cond, val, depth-1)
	}
	if t.op == "bvadd" || t.op == "bvsub" {
		a := specialize(t.args[0], cond, val, depth-1)
		b := specialize(t.args[1], cond, val, depth-1)
		if a != t.args[0] || b != t.args[1] {
			return BVBin(t.op, a, b)
		}
	}
	return t
}
