package main

import (
	"fmt"
	"os"
	"go/token"
	"go/types"
	"strings"

	"golang.org/x/tools/go/ssa"
)

func fnKey(fn *ssa.Function) string {
	if fn.Parent() != nil {
		// closure: parent key + $n
		return fnKey(fn.Parent()) + "$" + strings.TrimPrefix(fn.Name(), fn.Parent().Name()+"$")
	}
	pkg := ""
	if fn.Pkg != nil {
		pkg = fn.Pkg.Pkg.Path()
	} else if o := fn.Object(); o != nil && o.Pkg() != nil {
		pkg = o.Pkg().Path()
	}
	recv := fn.Signature.Recv()
	if recv == nil {
		return pkg + "." + fn.Name()
	}
	rt := recv.Type()
	ptr := false
	if p, ok := rt.(*types.Pointer); ok {
		ptr = true
		rt = p.Elem()
	}
	name := "?"
	if n, ok := rt.(*types.Named); ok {
		name = n.Obj().Name()
		if n.Obj().Pkg() != nil {
			pkg = n.Obj().Pkg().Path()
		}
	}
	if ptr {
		return fmt.Sprintf("%s.(*%s).%s", pkg, name, fn.Name())
	}
	return fmt.Sprintf("%s.(%s).%s", pkg, name, fn.Name())
}

// ifaceMethodKey names an interface method by the interface that declares it.
func ifaceMethodKey(t types.Type, m *types.Func) string {
	if sig, ok := m.Type().(*types.Signature); ok && sig.Recv() != nil {
		if n, ok := sig.Recv().Type().(*types.Named); ok {
			return ifaceKey(n, m.Name())
		}
	}
	return ifaceKey(t, m.Name())
}

func ifaceKey(t types.Type, method string) string {
	if n, ok := t.(*types.Named); ok {
		pkg := ""
		if n.Obj().Pkg() != nil {
			pkg = n.Obj().Pkg().Path() + "."
		}
		return pkg + n.Obj().Name() + "." + method
	}
	return "?." + method
}

type callEff struct {
	all     bool
	classes map[string]bool
}

func (ex *executor) contractFor(callee *ssa.Function) *Contract {
	k := fnKey(callee)
	if c := ex.eng.cs.Funcs[k]; c != nil {
		return c
	}
	// instance of a generic function: the contract is written on the generic origin
	if o := callee.Origin(); o != nil && o != callee {
		if c := ex.eng.cs.Funcs[fnKey(o)]; c != nil {
			return c
		}
	}
	// package-wide assumed contract: "pkg/path.*"
	if c := ex.eng.cs.Funcs[pkgOfKey(k)+".*"]; c != nil {
		return c
	}
	return nil
}

// callEffects: static approximation of what a call may write (used for loop havoc).
func (ex *executor) callEffects(cc *ssa.CallCommon) callEff {
	eff := callEff{classes: map[string]bool{}}
	if cc.IsInvoke() {
		c := ex.eng.cs.Funcs[ifaceMethodKey(cc.Value.Type(), cc.Method)]
		if c != nil && (c.Pure || (c.HasAssigns && !c.AssignsAll && len(c.Assigns) == 0)) {
			return eff
		}
		if c != nil && c.HasAssigns && !c.AssignsAll {
			sig := cc.Method.Type().(*types.Signature)
			names := []string{"recv"}
			ptypes := []types.Type{cc.Value.Type()}
			for i := 0; i < sig.Params().Len(); i++ {
				n := sig.Params().At(i).Name()
				if n == "" {
					n = fmt.Sprintf("arg%d", i)
				}
				names = append(names, n)
				ptypes = append(ptypes, sig.Params().At(i).Type())
			}
			if cls := ex.assignClassesFor(c, names, ptypes); cls != nil {
				for _, cn := range cls {
					eff.classes[cn] = true
				}
				return eff
			}
		}
		eff.all = true
		return eff
	}
	if b, ok := cc.Value.(*ssa.Builtin); ok {
		switch b.Name() {
		case "append", "copy":
			if len(cc.Args) > 0 {
				if sl, ok := cc.Args[0].Type().Underlying().(*types.Slice); ok {
					for _, c := range ex.eng.leafClasses("elem", sl.Elem(), "") {
						eff.classes[c.Name] = true
					}
				}
			}
		case "delete":
			for _, n := range ex.mapClasses(cc.Args[0].Type()) {
				eff.classes[n] = true
			}
		}
		return eff
	}
	callee := cc.StaticCallee()
	if callee == nil {
		eff.all = true
		return eff
	}
	switch fnKey(callee) {
	case "math.Floor", "math.Ceil", "math.Trunc":
		return eff
	case "sort.Slice", "sort.SliceStable":
		if mi, ok := cc.Args[0].(*ssa.MakeInterface); ok {
			if sl, ok := mi.X.Type().Underlying().(*types.Slice); ok {
				for _, c := range ex.eng.leafClasses("elem", sl.Elem(), "") {
					eff.classes[c.Name] = true
				}
				return eff
			}
		}
	case "container/heap.Init", "container/heap.Push", "container/heap.Pop", "container/heap.Fix", "container/heap.Remove":
		if mi, ok := cc.Args[0].(*ssa.MakeInterface); ok {
			if pt, ok := mi.X.Type().Underlying().(*types.Pointer); ok {
				if sl, ok := pt.Elem().Underlying().(*types.Slice); ok {
					for _, c := range ex.eng.leafClasses("elem", sl.Elem(), "") {
						eff.classes[c.Name] = true
					}
					for _, cn := range ex.storeClasses(mi.X) {
						eff.classes[cn] = true
					}
					return eff
				}
			}
		}
	}
	c := ex.contractFor(callee)
	if c != nil && !c.Inline {
		if c.Pure {
			return eff
		}
		if c.HasAssigns && !c.AssignsAll {
			for _, cn := range ex.assignClasses(c, callee) {
				eff.classes[cn] = true
			}
			return eff
		}
		eff.all = true
		return eff
	}
	if ex.canInline(callee) {
		sub := ex.eng.staticEffects(callee, 0)
		if sub.all {
			eff.all = true
		}
		for k := range sub.classes {
			eff.classes[k] = true
		}
		return eff
	}
	eff.all = true
	return eff
}

// staticEffects scans a function body (for inlined callees).
func (eng *Engine) staticEffects(fn *ssa.Function, depth int) callEff {
	eff := callEff{classes: map[string]bool{}}
	if depth > 4 {
		eff.all = true
		return eff
	}
	ex := eng.newExecutor(fn, fnKey(fn), nil, nil)
	ex.classifyCells()
	func() {
		defer func() {
			if r := recover(); r != nil {
				eff.all = true
				if os.Getenv("GOVC_DEBUG") != "" {
					fmt.Printf("DEBUG staticEffects(%s): panic %v\n", fnKey(fn), r)
				}
			}
		}()
		for _, b := range fn.Blocks {
			for _, in := range b.Instrs {
				switch t := in.(type) {
				case *ssa.Store:
					if a, ok := t.Addr.(*ssa.Alloc); ok && ex.cells[a] != nil {
						continue
					}
					for _, cn := range ex.storeClasses(t.Addr) {
						eff.classes[cn] = true
					}
				case *ssa.MapUpdate:
					for _, cn := range ex.mapClasses(t.Map.Type()) {
						eff.classes[cn] = true
					}
				case ssa.CallInstruction:
					ex.depth = depth + 1
					sub := ex.callEffects(t.Common())
					if sub.all {
						eff.all = true
						if os.Getenv("GOVC_DEBUG") != "" {
							fmt.Printf("DEBUG staticEffects(%s): call %s has unknown effects\n", fnKey(fn), t.Common().String())
						}
					}
					for k := range sub.classes {
						eff.classes[k] = true
					}
				case *ssa.Send, *ssa.Select:
					eff.all = true
				}
			}
		}
	}()
	return eff
}

func (ex *executor) canInline(callee *ssa.Function) bool {
	if len(callee.Blocks) == 0 {
		return false
	}
	if ex.depth >= 5 {
		return false
	}
	for p := ex; p != nil; p = p.parent {
		if p.fn == callee {
			return false
		}
	}
	if !ex.eng.inRepo(callee) {
		if !ex.eng.inlineExternal[fnKey(callee)] {
			return false
		}
	}
	n := 0
	for _, b := range callee.Blocks {
		for _, in := range b.Instrs {
			if _, dbg := in.(*ssa.DebugRef); !dbg {
				n++
			}
		}
	}
	return n <= ex.eng.inlineLimit
}

// ---------- call execution ----------

func (ex *executor) execCall(st *state, in ssa.Instruction, cc *ssa.CallCommon, holder ssa.Value) {
	var res Value
	var rt types.Type
	if holder != nil {
		rt = holder.Type()
	} else {
		rt = cc.Signature().Results()
	}
	setRes := func(v Value) {
		if holder != nil {
			v.T = rt
			ex.setVal(holder, v)
		}
	}
	if cc.IsInvoke() {
		recv := ex.val(cc.Value)
		var args []Value
		args = append(args, recv)
		for _, a := range cc.Args {
			args = append(args, ex.val(a))
		}
		key := ifaceMethodKey(cc.Value.Type(), cc.Method)
		if c := ex.eng.cs.Funcs[key]; c != nil {
			names := []string{"recv"}
			sig := cc.Method.Type().(*types.Signature)
			for i := 0; i < sig.Params().Len(); i++ {
				n := sig.Params().At(i).Name()
				if n == "" {
					n = fmt.Sprintf("arg%d", i)
				}
				names = append(names, n)
			}
			res = ex.applyContract(st, c, key, names, args, sig.Results(), in.Pos(), c.PkgPath)
			setRes(res)
			return
		}
		if !ex.inSpec && ex.root().contract != nil && ex.root().contract.CheckNil {
			ex.addObligation(st, "nil", "interface method call "+ex.srcText(in.Pos(), cc.Method.Name()), Implies(st.pc, Not(Eq(recv.C[0], IntC(0)))), in.Pos())
		}
		ex.root().callees["unknown:"+key] = true
		ex.havocAll(st, "interface call "+shortFnKey(key))
		setRes(ex.freshResult(st, rt, "r."+cc.Method.Name()))
		return
	}
	if b, ok := cc.Value.(*ssa.Builtin); ok {
		setRes(ex.execBuiltin(st, in, b, cc, rt))
		return
	}
	var args []Value
	for _, a := range cc.Args {
		args = append(args, ex.val(a))
	}
	callee := cc.StaticCallee()
	if callee == nil {
		// dynamic call of a function value
		fv := ex.val(cc.Value)
		if fv.Cl != nil {
			cargs := append([]Value{}, args...)
			res = ex.inlineCall(st, fv.Cl.fn, cargs, fv.Cl.bindings, in.Pos())
			setRes(res)
			return
		}
		if rc := ex.root().contract; rc != nil && rc.AllocOnly != nil && ex.parent == nil {
			// call through a parameter declared `allocator`: returns a fresh non-nil object, writes nothing
			if u, ok := cc.Value.(*ssa.UnOp); ok && u.Op == token.MUL {
				if a, ok := u.X.(*ssa.Alloc); ok {
					if why, ok := rc.AllocOnly[a.Comment]; ok && len(cc.Args) == 0 {
						ex.root().abstracted[fmt.Sprintf("call through parameter %s assumed to only allocate its result: %s", a.Comment, why)]++
						r := ex.freshResult(st, rt, "r.alloc")
						nr := ex.newRef(st)
						for i, k := range leafKinds(rt) {
							if k == leafRef && i < len(r.C) {
								// interface results: (type tag, payload); pointer results: the pointer itself
								if i == len(r.C)-1 {
									ex.assume(st, Eq(r.C[i], nr))
								}
							}
						}
						setRes(r)
						return
					}
				}
			}
		}
		if fname := calledField(cc.Value); fname != "" {
			ex.atCallObligations(st, "field:"+fname, args, in.Pos())
		}
		ex.root().callees["unknown:dynamic"] = true
		ex.havocAll(st, "dynamic call "+ex.srcText(in.Pos(), ""))
		setRes(ex.freshResult(st, rt, "r.dyn"))
		return
	}
	key := fnKey(callee)
	if !ex.inSpec && callee.Signature.Recv() != nil && (callee.Name() == "Push" || callee.Name() == "Pop" || callee.Name() == "Swap") && ex.eng.implementsHeap(callee.Signature.Recv().Type()) {
		// representation invariant of a binary heap: its slice is changed through container/heap only
		o := ex.addObligation(st, "heap-discipline", "direct call of "+shortFnKey(key)+" bypasses container/heap "+ex.srcText(in.Pos(), ""), Not(st.pc), in.Pos())
		o.Definite = true
	}
	if v, ok := ex.intrinsic(st, key, args, rt); ok {
		setRes(v)
		return
	}
	if v, ok := ex.containerIntrinsic(st, key, cc, args, rt); ok {
		setRes(v)
		return
	}
	if mc, ok := cc.Value.(*ssa.MakeClosure); ok {
		// immediately-invoked closure
		var binds []Value
		for _, b := range mc.Bindings {
			binds = append(binds, ex.val(b))
		}
		res = ex.inlineCall(st, callee, args, binds, in.Pos())
		setRes(res)
		return
	}
	if c := ex.contractFor(callee); c != nil && !c.Inline {
		names := paramNames(callee)
		res = ex.applyContract(st, c, key, names, args, callee.Signature.Results(), in.Pos(), c.PkgPath)
		setRes(res)
		return
	}
	{
		// call-site assertions also apply to callees without a contract (inlined or unknown)
		short := shortFnKey(key)
		if i := strings.LastIndex(short, "/"); i >= 0 {
			short = short[i+1:]
		}
		ex.atCallObligations(st, short, args, in.Pos())
	}
	if ex.canInline(callee) {
		res = ex.inlineCall(st, callee, args, nil, in.Pos())
		setRes(res)
		return
	}
	ex.root().callees["unknown:"+key] = true
	ex.havocAll(st, "call "+shortFnKey(key))
	setRes(ex.freshResult(st, rt, "r."+callee.Name()))
}

func paramNames(fn *ssa.Function) []string {
	var names []string
	if len(fn.Params) > 0 {
		for i, p := range fn.Params {
			n := p.Name()
			if n == "" || n == "_" {
				n = fmt.Sprintf("arg%d", i)
			}
			names = append(names, n)
		}
		return names
	}
	sig := fn.Signature
	if sig.Recv() != nil {
		n := sig.Recv().Name()
		if n == "" || n == "_" {
			n = "recv"
		}
		names = append(names, n)
	}
	for i := 0; i < sig.Params().Len(); i++ {
		n := sig.Params().At(i).Name()
		if n == "" || n == "_" {
			n = fmt.Sprintf("arg%d", i)
		}
		names = append(names, n)
	}
	return names
}

func (ex *executor) freshResult(st *state, rt types.Type, prefix string) Value {
	if rt == nil {
		return Value{}
	}
	if tup, ok := rt.(*types.Tuple); ok && tup.Len() == 0 {
		return Value{T: rt}
	}
	v := freshValue(prefix, rt)
	ex.boundRefs(v, rt, st.alloc)
	return v
}

func (c *callEff) add(names []string) {
	for _, n := range names {
		c.classes[n] = true
	}
}

// atCallObligations: the `atcall <callee> assert` clauses of the function under verification for a call of <callee>
// (a function or method by its short key, or `field:<name>` for a call through a function-valued struct field).
func (ex *executor) atCallObligations(st *state, short string, args []Value, pos token.Pos) {
	r := ex.root()
	if rc := r.contract; rc != nil && ex == r && len(rc.AtCall[short]) > 0 {
		for i, ac := range rc.AtCall[short] {
			av := map[string]Value{}
			for k, v := range r.params {
				av[k] = v
			}
			for ai, a := range args {
				av[fmt.Sprintf("callarg%d", ai)] = a
			}
			t := r.evalBoolClause(ac, st, r.entry, av)
			ex.addObligation(st, "atcall", fmt.Sprintf("at call %s: %s", short, clauseLabel(ac, i)), Implies(st.pc, t), pos)
		}
	}
}

// calledField names the struct field a dynamic call goes through (s.processor(...)), or "".
func calledField(v ssa.Value) string {
	if u, ok := v.(*ssa.UnOp); ok && u.Op == token.MUL {
		if fa, ok := u.X.(*ssa.FieldAddr); ok {
			if st, ok := fa.X.Type().Underlying().(*types.Pointer); ok {
				if s, ok := st.Elem().Underlying().(*types.Struct); ok {
					return s.Field(fa.Field).Name()
				}
			}
		}
	}
	if f, ok := v.(*ssa.Field); ok {
		if s, ok := f.X.Type().Underlying().(*types.Struct); ok {
			return s.Field(f.Field).Name()
		}
	}
	return ""
}

// applyContract: modular call rule.
func (ex *executor) applyContract(st *state, c *Contract, key string, names []string, args []Value, results *types.Tuple, pos token.Pos, pkgPath string) Value {
	r := ex.root()
	r.callees[key] = true
	c.Used = true
	pre := st.clone()
	vars := map[string]Value{}
	for i, n := range names {
		if i < len(args) {
			vars[n] = args[i]
		}
	}
	// a parameter of the callee renamed since the baseline: the contract's (old) name denotes the same argument
	if cfn := ex.eng.lookupFunc(key); cfn != nil {
		for o, n := range ex.eng.renamedLocals(key, cfn) {
			if v, ok := vars[n]; ok {
				if _, clash := vars[o]; !clash {
					vars[o] = v
				}
			}
		}
	}
	env := &specEnv{ex: ex, st: st, old: pre, vars: vars, pkgPath: pkgPath, calleeCtx: true}
	env.callID = FreshVar("callid", BV(64))
	short := shortFnKey(key)
	if i := strings.LastIndex(short, "/"); i >= 0 {
		short = short[i+1:]
	}
	ex.atCallObligations(st, short, args, pos)
	for i, rq := range c.Requires {
		t := ex.evalBoolEnv(rq, env)
		if rc := r.contract; rc != nil && rc.NoSafety && strings.HasPrefix(rq.Label, "safe-") {
			// overflow / size preconditions are safety obligations: not generated for nosafety functions
			ex.assume(st, t)
			continue
		}
		if rc := r.contract; rc != nil && rc.TrustPre != nil {
			if why, ok := rc.TrustPre[short+" "+clauseLabel(rq, i)]; ok {
				r.abstracted[fmt.Sprintf("precondition %s of %s assumed at the call site: %s", clauseLabel(rq, i), short, why)]++
				ex.assume(st, t)
				continue
			}
		}
		po := ex.addObligation(st, "pre", fmt.Sprintf("call %s requires %s", short, clauseLabel(rq, i)), Implies(st.pc, t), pos)
		if isLockLabel(rq.Label) {
			po.Definite = true
		}
		ex.assume(st, t)
	}
	// frame
	pure := c.Pure
	if !pure || len(c.Assigns) > 0 {
		if c.HasAssigns && !c.AssignsAll {
			env.st = pre
			var locs []*locRef
			for _, a := range c.Assigns {
				locs = append(locs, ex.evalLoc(a, env)...)
			}
			env.st = st
			na := FreshVar("alloc", IntSort)
			ex.assume(st, ILe(st.alloc, na))
			st.alloc = na
			for _, l := range locs {
				ex.havocLoc(st, l, na)
			}
		} else {
			// frame-less callee: everything is havocked except the locations it is assumed to preserve
			type saved struct {
				cls *HeapClass
				key []*Term
				val *Term
				h   *Heap
			}
			var keep []saved
			env.st = pre
			for _, pc := range c.Preserves {
				for _, l := range ex.evalLoc(pc, env) {
					for _, cl := range l.classes {
						h := ex.heapOf(pre, cl)
						if l.region != nil {
							keep = append(keep, saved{cls: cl, h: h})
						} else {
							keep = append(keep, saved{cls: cl, key: l.key, val: h.Read(l.key)})
						}
					}
				}
			}
			env.st = st
			ex.havocAll(st, "contract of "+short+" has no frame")
			for _, k := range keep {
				if k.h != nil {
					st.heaps[k.cls.Name] = k.h
				} else {
					st.heaps[k.cls.Name] = ex.heapOf(st, k.cls).Store(k.key, k.val)
				}
			}
			if len(keep) > 0 {
				r.abstracted["callee "+short+" assumed to preserve the locations listed in its contract"]++
			}
			if len(c.Except) > 0 {
				env.st = pre
				var xl []*locRef
				for _, xc := range c.Except {
					xl = append(xl, ex.evalLoc(xc, env)...)
				}
				env.st = st
				for _, l := range xl {
					ex.havocLoc(st, l, st.alloc)
				}
			}
		}
	}
	// results
	var res Value
	res.T = results
	if results != nil {
		if pure {
			var flat []*Term
			for _, a := range args {
				flat = append(flat, a.C...)
			}
			sh := shapeOf(results)
			for i, s := range sh {
				var t *Term
				if len(flat) == 0 {
					t = Var(fmt.Sprintf("fn:%s#%d", key, i), s)
				} else {
					t = App(fmt.Sprintf("fn:%s#%d", key, i), s, flat...)
				}
				res.C = append(res.C, t)
			}
			wellFormedApps(res.C, results)
		} else {
			res = ex.freshResult(st, results, "r."+short)
		}
		bindResults(vars, res, results)
	}
	for _, en := range c.Ensures {
		t := ex.evalBoolEnv(en, env)
		ex.assume(st, t)
	}
	for i, en := range c.Records {
		t := ex.evalBoolEnv(en, env)
		ex.assume(st, t)
		if en.Assumed {
			r.abstracted["assumed (unchecked) postcondition of "+short+": "+clauseLabel(en, i)]++
		}
	}
	for _, u := range c.Unfolds {
		ex.applyUnfoldEnv(u, env)
	}
	// acquisition of a mutex that guards shared locations (see `guards`)
	if rc := r.contract; rc != nil && ex == r && len(rc.Guards) > 0 && len(args) > 0 && len(args[0].C) == 1 &&
		(key == "sync.(*RWMutex).Lock" || key == "sync.(*Mutex).Lock" || key == "sync.(*RWMutex).RLock") {
		for _, g := range rc.Guards {
			genv := r.mkEnv(g.Mutex, st, r.entry, nil)
			mv := genv.eval(g.Mutex.Expr)
			if len(mv.C) != 1 || mv.C[0] != args[0].C[0] {
				continue
			}
			for _, lc := range g.Locs {
				for _, l := range r.evalLoc(lc, r.mkEnv(lc, st, r.entry, nil)) {
					ex.havocLoc(st, l, st.alloc)
				}
			}
			for _, y := range rc.Yields {
				ex.assume(st, r.evalBoolClause(y, st, r.entry, nil))
			}
			r.abstracted["guarded locations may have changed while the mutex was not held: "+g.Mutex.Text]++
			if key != "sync.(*RWMutex).RLock" {
				st.atLock = st.clone()
			}
		}
	}
	return res
}

func wellFormedApps(c []*Term, t types.Type) {
	// attach representation invariants to uninterpreted results too
	wellFormed(c, t)
}

func bindResults(vars map[string]Value, res Value, results *types.Tuple) {
	if results == nil {
		return
	}
	lo := 0
	for i := 0; i < results.Len(); i++ {
		n := len(shapeOf(results.At(i).Type()))
		v := Value{T: results.At(i).Type(), C: res.C[lo : lo+n]}
		vars[fmt.Sprintf("result%d", i)] = v
		if results.Len() == 1 {
			vars["result"] = v
		}
		if nm := results.At(i).Name(); nm != "" && nm != "_" {
			if _, clash := vars[nm]; !clash {
				vars[nm] = v
			}
		}
		lo += n
	}
}

// inlineCall executes the callee body in the caller's state.
func (ex *executor) inlineCall(st *state, callee *ssa.Function, args []Value, bindings []Value, pos token.Pos) Value {
	key := fnKey(callee)
	r := ex.root()
	r.inlined[key] = true
	if len(callee.Blocks) == 0 {
		panic(unsupported{"inline of bodyless function " + key})
	}
	sub := ex.eng.newExecutor(callee, key, nil, ex)
	sub.safety = ex.safety
	sub.inSpec = ex.inSpec
	sub.classifyCells()
	sub.findLoops()
	for _, li := range sub.loops {
		if li.lc == nil {
			li.lc = &LoopContract{}
		}
	}
	// inlined functions may carry loop annotations through an "inline" contract
	if c := ex.contractFor(callee); c != nil {
		for _, li := range sub.loops {
			if lc := c.Loops[li.index]; lc != nil {
				li.lc = lc
			}
		}
		sub.contract = c
	}
	for i, p := range callee.Params {
		if i < len(args) {
			v := args[i]
			sub.env[envKey{"", p}] = v
			name := p.Name()
			sub.params[name] = v
		}
	}
	for i, fv := range callee.FreeVars {
		if i < len(bindings) {
			sub.env[envKey{"", fv}] = bindings[i]
		}
	}
	sub.entry = st.clone()
	sub.inlineRet = &inlineCollector{}
	saved := st.defers
	work := st.clone()
	work.defers = nil
	sub.runBody(work)
	// merge returns
	col := sub.inlineRet
	if len(col.states) == 0 {
		st.dead = true
		st.pc = False
		return ex.freshResult(st, callee.Signature.Results(), "dead")
	}
	merged := sub.mergeStates(col.states)
	var res Value
	res.T = callee.Signature.Results()
	if len(col.vals) > 0 && len(col.vals[0]) > 0 {
		// merge result values with the same selectors as states
		n := len(col.states)
		cur := concatValues(col.vals[n-1])
		for i := n - 2; i >= 0; i-- {
			if col.states[i].pc == False {
				continue
			}
			cur = valueIte(col.states[i].pc, concatValues(col.vals[i]), cur)
		}
		res.C = cur.C
		res.A = cur.A
	}
	*st = *merged
	st.defers = saved
	// register-like cells of the callee are dropped implicitly (they are keyed by cellRef)
	return res
}

func concatValues(vs []Value) Value {
	var out Value
	for _, v := range vs {
		out.C = append(out.C, v.C...)
	}
	if len(vs) == 1 {
		out.A = vs[0].A
		out.T = vs[0].T
	}
	return out
}

func (ex *executor) doReturn(st *state, ret *ssa.Return) {
	var vals []Value
	for _, r := range ret.Results {
		vals = append(vals, ex.val(r))
	}
	// coerce untyped nil results
	results := ex.fn.Signature.Results()
	for i := range vals {
		want := len(shapeOf(results.At(i).Type()))
		if len(vals[i].C) != want {
			vals[i] = zeroValue(results.At(i).Type())
		}
	}
	if ex.inlineRet != nil {
		ex.inlineRet.states = append(ex.inlineRet.states, st.clone())
		ex.inlineRet.vals = append(ex.inlineRet.vals, vals)
		st.dead = true
		return
	}
	c := ex.contract
	vars := map[string]Value{}
	for k, v := range ex.params {
		vars[k] = v
	}
	var res Value
	for _, v := range vals {
		res.C = append(res.C, v.C...)
	}
	bindResults(vars, res, results)
	env := &specEnv{ex: ex, st: st, old: ex.entry, vars: vars, pkgPath: c.PkgPath}
	ex.retNodes++
	if os.Getenv("GOVC_DEBUG") != "" {
		fmt.Printf("DEBUG return %d of %s pc=%s\n", ex.retNodes, ex.key, st.pc.Short())
		for n, h := range st.heaps {
			fmt.Printf("   heap %s: %s\n", n, h.describe(6))
		}
	}
	sfx := ""
	if ex.retNodes > 1 {
		sfx = fmt.Sprintf(" @return%d", ex.retNodes)
	}
	for i, en := range c.Ensures {
		t := ex.evalBoolEnv(en, env)
		o := ex.addObligation(st, "post", clauseLabel(en, i)+sfx, Implies(st.pc, t), ret.Pos())
		if o.RP != nil {
			o.RP.outs = vals
			o.RP.outType = results
		}
	}
	for i, as := range c.Asserts {
		_ = i
		_ = as
	}
	if c.HasAssigns && !c.AssignsAll {
		ex.frameObligations(st, env, sfx, ret.Pos())
	}
	// vacuity guard: this return must be reachable under all assumptions made on the way
	co := ex.addObligation(st, "vacuity", "return reachable"+sfx, False, ret.Pos())
	co.Cover = true
	st.dead = true
}

// frameObligations: everything outside the assigns clause is unchanged.
func (ex *executor) frameObligations(st *state, env *specEnv, sfx string, pos token.Pos) {
	c := ex.contract
	if !epochsEqual(st.epochs, ex.entry.epochs) {
		ex.addObligation(st, "frame", "no unframed call"+sfx, Not(st.pc), pos)
		return
	}
	oldEnv := *env
	oldEnv.st = ex.entry
	var locs []*locRef
	for _, a := range c.Assigns {
		locs = append(locs, ex.evalLoc(a, &oldEnv)...)
	}
	alloc0 := ex.entry.alloc
	var goals []*Term
	for name, h := range st.heaps {
		if name == verClassName || strings.HasPrefix(name, "R:") {
			continue
		}
		cls := ex.eng.classes[name]
		h0 := ex.heapOf(ex.entry, cls)
		if h0 == h {
			continue
		}
		key := make([]*Term, len(cls.Key))
		for i, s := range cls.Key {
			key[i] = FreshVar("fk", s)
		}
		// pre-existing object
		cond := True
		if strings.HasPrefix(name, "P:") || strings.HasPrefix(name, "E:") || strings.HasPrefix(name, "M:") {
			cond = And(ILe(IntC(1), key[0]), ILt(key[0], alloc0))
		}
		var notAssigned []*Term
		for _, l := range locs {
			notAssigned = append(notAssigned, Not(l.covers(name, key)))
		}
		g := Implies(And(append(notAssigned, cond)...), Eq(h.Read(key), h0.Read(key)))
		goals = append(goals, g)
		if os.Getenv("GOVC_FRAME_SPLIT") != "" {
			ex.addObligation(st, "frame", "class "+shortFnKey(name)+sfx, Implies(st.pc, g), pos)
		}
	}
	fo := ex.addObligation(st, "frame", "assigns"+sfx, Implies(st.pc, And(goals...)), pos)
	if len(goals) > 1 {
		for _, g := range goals {
			fo.Parts = append(fo.Parts, Implies(st.pc, g))
		}
	}
}

// ---------- go statements ----------

func (ex *executor) execGo(st *state, g *ssa.Go) {
	r := ex.root()
	r.abstracted["go statement (goroutine body not executed; its static write set is havocked at the spawn point)"]++
	eff := ex.callEffects(g.Common())
	if mc, ok := g.Common().Value.(*ssa.MakeClosure); ok {
		eff = ex.eng.staticEffects(mc.Fn.(*ssa.Function), ex.depth)
		// captured variables written by the closure
		cfn := mc.Fn.(*ssa.Function)
		for bi, b := range mc.Bindings {
			written := false
			if bi < len(cfn.FreeVars) {
				fv := cfn.FreeVars[bi]
				for _, blk := range cfn.Blocks {
					for _, in := range blk.Instrs {
						if stp, ok := in.(*ssa.Store); ok && stp.Addr == fv {
							written = true
						}
					}
				}
			}
			if !written {
				continue
			}
			if pt, ok := b.Type().Underlying().(*types.Pointer); ok {
				for _, cn := range ex.classNames("obj", pt.Elem(), nil, "") {
					eff.classes[cn] = true
				}
			}
		}
	}
	if eff.all {
		ex.havocAll(st, "go statement")
		return
	}
	tag := ex.fresh("go")
	for cn := range eff.classes {
		cls := ex.eng.classes[cn]
		if cls == nil {
			continue
		}
		st.heaps[cn] = ex.heapOf(st, cls).Havoc(tag, nil)
	}
}

// ---------- builtins ----------

func (ex *executor) execBuiltin(st *state, in ssa.Instruction, b *ssa.Builtin, cc *ssa.CallCommon, rt types.Type) Value {
	arg := func(i int) Value { return ex.val(cc.Args[i]) }
	switch b.Name() {
	case "len":
		x := arg(0)
		switch cc.Args[0].Type().Underlying().(type) {
		case *types.Slice:
			return Value{T: rt, C: []*Term{x.C[2]}}
		case *types.Basic:
			return Value{T: rt, C: []*Term{strLen(x.C[0])}}
		case *types.Map:
			_, _, ln := ex.mapClassesFor(cc.Args[0].Type())
			l := ex.heapOf(st, ln).Read([]*Term{x.C[0]})
			return Value{T: rt, C: []*Term{Ite(Eq(x.C[0], IntC(0)), BVI(0, 64), l)}}
		case *types.Array:
			return Value{T: rt, C: []*Term{BVI(cc.Args[0].Type().Underlying().(*types.Array).Len(), 64)}}
		case *types.Pointer:
			return Value{T: rt, C: []*Term{BVI(cc.Args[0].Type().Underlying().(*types.Pointer).Elem().Underlying().(*types.Array).Len(), 64)}}
		case *types.Chan:
			v := freshValue("chanlen", rt)
			ex.assume(st, BVCmp("bvsge", v.C[0], BVI(0, 64)))
			return v
		}
	case "cap":
		x := arg(0)
		if _, ok := cc.Args[0].Type().Underlying().(*types.Slice); ok {
			return Value{T: rt, C: []*Term{x.C[3]}}
		}
	case "append":
		return ex.builtinAppend(st, in, cc, rt)
	case "copy":
		return ex.builtinCopy(st, in, cc, rt)
	case "delete":
		m := arg(0)
		ex.mapDelete(st, cc.Args[0].Type(), m.C[0], arg(1))
		return Value{T: rt}
	case "print", "println":
		return Value{T: rt}
	case "min", "max":
		x := arg(0)
		for i := 1; i < len(cc.Args); i++ {
			y := arg(i)
			op := token.LSS
			if b.Name() == "max" {
				op = token.GTR
			}
			c := ex.binop(st, op, x, y, cc.Args[0].Type(), cc.Args[i].Type(), types.Typ[types.Bool], in.Pos())
			x = valueIte(c.C[0], x, y)
		}
		x.T = rt
		return x
	case "ssa:wrapnilchk":
		return arg(0)
	case "ssa:deferstack":
		return Value{T: rt, C: []*Term{IntC(0)}}
	case "recover":
		return freshValue("recover", rt)
	case "close":
		// closing a channel never blocks: not a yield point; channel contents are not modelled
		ex.root().abstracted["close(chan): channel state is not modelled"]++
		return Value{T: rt}
	case "clear":
		panic(unsupported{"builtin clear"})
	}
	panic(unsupported{"builtin " + b.Name()})
}

// copyNode: dst[dstOff .. dstOff+n) := src-heap[srcArr][srcOff ..]
func copyHeap(prev *Heap, src *Heap, dstArr, dstOff, n, srcArr, srcOff *Term) *Heap {
	h := &Heap{kind: hCopy, id: nextHeapID(), cls: prev.cls, prev: prev, a: src, key: []*Term{dstArr, dstOff, n, srcArr, srcOff}, depth: prev.depth + 1}
	return h
}

func (ex *executor) builtinAppend(st *state, in ssa.Instruction, cc *ssa.CallCommon, rt types.Type) Value {
	s := ex.val(cc.Args[0])
	t := ex.val(cc.Args[1])
	elem := rt.Underlying().(*types.Slice).Elem()
	cs := ex.eng.leafClasses("elem", elem, "")
	var srcArr, srcOff, n *Term
	strSrc := isString(cc.Args[1].Type())
	if strSrc {
		n = strLen(t.C[0])
	} else {
		if len(t.C) != 4 { // untyped nil
			t = zeroValue(rt)
		}
		srcArr, srcOff, n = t.C[0], t.C[1], t.C[2]
	}
	if len(s.C) != 4 {
		s = zeroValue(rt)
	}
	arr, off, ln, cp := s.C[0], s.C[1], s.C[2], s.C[3]
	newLen := BVBin("bvadd", ln, n)
	inPlace := BVCmp("bvsle", newLen, cp)
	fresh := ex.newRef(st)
	newCap := FreshVar("append.cap", BV(64))
	ex.assume(st, And(BVCmp("bvsle", newLen, newCap), BVCmp("bvsle", newCap, BVI(1<<maxLenBits, 64))))
	if strSrc {
		// content of appended string bytes is not tracked
		for _, c := range cs {
			h := ex.heapOf(st, c)
			tag := ex.fresh("appstr")
			a, f, o, l, nl := arr, fresh, off, ln, newLen
			nh := h.Havoc(tag, func(key []*Term) *Term {
				return Or(And(Eq(key[0], a), BVCmp("bvsle", BVBin("bvadd", o, l), key[1]), BVCmp("bvslt", key[1], BVBin("bvadd", o, nl))), Eq(key[0], f))
			})
			st.heaps[c.Name] = nh
		}
	} else {
		for _, c := range cs {
			h := ex.heapOf(st, c)
			// in-place: copy tail
			hin := copyHeap(h, h, arr, BVBin("bvadd", off, ln), n, srcArr, srcOff)
			// realloc: copy prefix then tail into the fresh array
			h1 := copyHeap(h, h, fresh, BVI(0, 64), ln, arr, off)
			h2 := copyHeap(h1, h, fresh, ln, n, srcArr, srcOff)
			st.heaps[c.Name] = HeapIte(inPlace, hin, h2)
		}
	}
	for _, c := range cs {
		if c.Name == byteClassName {
			ex.bumpVer(st, arr)
		}
	}
	res := valueIte(inPlace,
		Value{T: rt, C: []*Term{arr, off, newLen, cp}},
		Value{T: rt, C: []*Term{fresh, BVI(0, 64), newLen, newCap}})
	return res
}

func (ex *executor) builtinCopy(st *state, in ssa.Instruction, cc *ssa.CallCommon, rt types.Type) Value {
	d := ex.val(cc.Args[0])
	s := ex.val(cc.Args[1])
	elem := cc.Args[0].Type().Underlying().(*types.Slice).Elem()
	cs := ex.eng.leafClasses("elem", elem, "")
	if isString(cc.Args[1].Type()) {
		sl := strLen(s.C[0])
		n := Ite(BVCmp("bvslt", d.C[2], sl), d.C[2], sl)
		for _, c := range cs {
			h := ex.heapOf(st, c)
			tag := ex.fresh("cpstr")
			a, o, nn := d.C[0], d.C[1], n
			st.heaps[c.Name] = h.Havoc(tag, func(key []*Term) *Term {
				return And(Eq(key[0], a), BVCmp("bvsle", o, key[1]), BVCmp("bvslt", key[1], BVBin("bvadd", o, nn)))
			})
		}
		for _, c := range cs {
			if c.Name == byteClassName {
				ex.bumpVer(st, d.C[0])
			}
		}
		return Value{T: rt, C: []*Term{n}}
	}
	if len(s.C) != 4 {
		s = zeroValue(cc.Args[0].Type())
	}
	n := Ite(BVCmp("bvslt", d.C[2], s.C[2]), d.C[2], s.C[2])
	var srcStr *Term
	if len(cs) == 1 && cs[0].Name == byteClassName {
		srcStr = ex.stringOfBytes(st, s)
	}
	for _, c := range cs {
		h := ex.heapOf(st, c)
		st.heaps[c.Name] = copyHeap(h, h, d.C[0], d.C[1], n, s.C[0], s.C[1])
		if c.Name == byteClassName {
			ex.bumpVer(st, d.C[0])
		}
	}
	if srcStr != nil {
		// a full-length copy makes the destination read as the same byte string
		full := And(Eq(n, d.C[2]), Eq(n, s.C[2]), Not(Eq(d.C[0], s.C[0])))
		ex.assume(st, Implies(full, Eq(ex.stringOfBytes(st, d), srcStr)))
	}
	return Value{T: rt, C: []*Term{n}}
}

// intrinsic: standard-library functions with an exact SMT meaning.
func (ex *executor) intrinsic(st *state, key string, args []Value, rt types.Type) (Value, bool) {
	switch key {
	case "math.Floor":
		return Value{T: rt, C: []*Term{Raw("fp.roundToIntegral RTN", FPSort, args[0].C[0])}}, true
	case "math.Ceil":
		return Value{T: rt, C: []*Term{Raw("fp.roundToIntegral RTP", FPSort, args[0].C[0])}}, true
	case "math.Trunc":
		return Value{T: rt, C: []*Term{Raw("fp.roundToIntegral RTZ", FPSort, args[0].C[0])}}, true
	}
	return Value{}, false
}

// containerIntrinsic: sort.Slice and container/heap operations with a sound frame: only the
// sorted slice's elements / the heap's slice header and backing elements change (to arbitrary
// values of the right shape; the permutation / heap order itself is not modelled).
func (ex *executor) containerIntrinsic(st *state, key string, cc *ssa.CallCommon, args []Value, rt types.Type) (Value, bool) {
	r := ex.root()
	switch key {
	case "sort.Slice", "sort.SliceStable":
		mi, ok := cc.Args[0].(*ssa.MakeInterface)
		if !ok {
			return Value{}, false
		}
		sl, ok := mi.X.Type().Underlying().(*types.Slice)
		if !ok {
			return Value{}, false
		}
		x := ex.val(mi.X)
		cs := ex.eng.leafClasses("elem", sl.Elem(), "")
		var before []*Heap
		for _, c := range cs {
			before = append(before, ex.heapOf(st, c))
		}
		ex.havocElems(st, sl.Elem(), x.C[0], x.C[1], x.C[2])
		// the result is a permutation of the input: new[k] == old[perm(k)], perm a fresh function
		perm := ex.fresh("sortperm")
		bv := BoundVar("pk", BV(64))
		pk := App(perm, BV(64), bv)
		inRange := And(BVCmp("bvsle", BVI(0, 64), bv), BVCmp("bvslt", bv, x.C[2]))
		var eqs []*Term
		eqs = append(eqs, BVCmp("bvsle", BVI(0, 64), pk), BVCmp("bvslt", pk, x.C[2]))
		for i, c := range cs {
			nw := ex.heapOf(st, c).Read([]*Term{x.C[0], BVBin("bvadd", x.C[1], bv)})
			od := before[i].Read([]*Term{x.C[0], BVBin("bvadd", x.C[1], pk)})
			eqs = append(eqs, Eq(nw, od))
		}
		ex.assume(st, Forall([]*Term{bv}, Implies(inRange, And(eqs...))))
		// the result is ordered by the comparator: no element is less than its predecessor
		ordered := false
		if len(cc.Args) > 1 {
			if fv := ex.val(cc.Args[1]); fv.Cl != nil && len(fv.Cl.fn.Params) == 2 {
				ordered = ex.assumeSorted(st, fv.Cl, x.C[2])
			}
		}
		if ordered {
			r.abstracted["sort.Slice: the sorted slice becomes a permutation of itself in which no element is less (by the given comparator) than its predecessor; sort.Slice itself is not verified"]++
		} else {
			r.abstracted["sort.Slice: the sorted slice becomes some permutation of itself (the order itself is not modelled), nothing else changes"]++
		}
		return Value{T: rt}, true
	case "container/heap.Init", "container/heap.Push", "container/heap.Pop", "container/heap.Fix", "container/heap.Remove":
		mi, ok := cc.Args[0].(*ssa.MakeInterface)
		if !ok {
			return Value{}, false
		}
		pt, ok := mi.X.Type().Underlying().(*types.Pointer)
		if !ok {
			return Value{}, false
		}
		sl, ok := pt.Elem().Underlying().(*types.Slice)
		if !ok {
			return Value{}, false
		}
		pv := ex.val(mi.X)
		a := ex.addrOf(pv)
		old := ex.load(st, a)
		// elements of the old backing array may be permuted in place
		ex.havocElems(st, sl.Elem(), old.C[0], old.C[1], old.C[3])
		nv := freshValue("heap", pt.Elem())
		ex.boundRefs(nv, pt.Elem(), IAdd(st.alloc, IntC(1)))
		one := BVI(1, 64)
		switch key {
		case "container/heap.Push":
			ex.assume(st, Eq(nv.C[2], BVBin("bvadd", old.C[2], one)))
			// appended in place or reallocated into a fresh array
			nr := ex.newRef(st)
			ex.assume(st, Or(And(Eq(nv.C[0], old.C[0]), Eq(nv.C[1], old.C[1]), Eq(nv.C[3], old.C[3]), BVCmp("bvslt", old.C[2], old.C[3])),
				And(Eq(nv.C[0], nr), Eq(nv.C[1], BVI(0, 64)), BVCmp("bvsle", nv.C[2], nv.C[3]))))
		case "container/heap.Pop", "container/heap.Remove":
			if ex.safety {
				ex.addObligation(st, "bounds", "heap.Pop on a non-empty heap "+ex.srcText(cc.Pos(), ""), Implies(st.pc, BVCmp("bvsgt", old.C[2], BVI(0, 64))), cc.Pos())
			}
			ex.assume(st, BVCmp("bvsgt", old.C[2], BVI(0, 64)))
			ex.assume(st, And(Eq(nv.C[2], BVBin("bvsub", old.C[2], one)), Eq(nv.C[0], old.C[0])))
		default:
			ex.assume(st, And(Eq(nv.C[2], old.C[2]), Eq(nv.C[0], old.C[0]), Eq(nv.C[1], old.C[1]), Eq(nv.C[3], old.C[3])))
		}
		ex.store(st, a, nv)
		r.abstracted["container/heap: heap slice header and elements become arbitrary (heap order not modelled), length tracked, nothing else changes"]++
		if key == "container/heap.Pop" || key == "container/heap.Remove" {
			return freshValue("heap.pop", rt), true
		}
		return Value{T: rt}, true
	}
	return Value{}, false
}

// havocElems: elements [0,n) of the slice (arr, off) take arbitrary values.
func (ex *executor) havocElems(st *state, elem types.Type, arr, off, n *Term) {
	cs := ex.eng.leafClasses("elem", elem, "")
	tag := ex.fresh("perm")
	lo := off
	hi := BVBin("bvadd", off, n)
	for _, c := range cs {
		h := ex.heapOf(st, c)
		st.heaps[c.Name] = h.Havoc(tag, func(key []*Term) *Term {
			return And(Eq(key[0], arr), BVCmp("bvsle", lo, key[1]), BVCmp("bvslt", key[1], hi))
		})
		if c.Name == byteClassName {
			ex.bumpVer(st, arr)
		}
	}
}

func isLockLabel(l string) bool {
	for _, p := range []string{"not-locked", "write-locked", "read-locked", "locked", "not-held", "no-recursive", "no-write-lock"} {
		if strings.HasPrefix(l, p) {
			return true
		}
	}
	return false
}

// assumeSorted: forall k in [0, n-1): !less(k+1, k), with the comparator closure evaluated symbolically.
func (ex *executor) assumeSorted(st *state, cl *closureVal, n *Term) (ok bool) {
	r := ex.root()
	nObl, nAss := len(r.obls), len(r.assumes)
	savedCtx := ex.curCtx
	defer func() {
		ex.curCtx = savedCtx
		r.obls = r.obls[:nObl]
		if rec := recover(); rec != nil {
			r.assumes = r.assumes[:nAss]
			ok = false
		}
	}()
	k := BoundVar("sk", BV(64))
	intT := types.Typ[types.Int]
	sub := *ex
	sub.safety = false
	sub.inSpec = true
	scratch := st.clone()
	res := (&sub).inlineCall(scratch, cl.fn, []Value{{T: intT, C: []*Term{BVBin("bvadd", k, BVI(1, 64))}}, {T: intT, C: []*Term{k}}}, cl.bindings, token.NoPos)
	// what the comparator's callees guarantee about their results (e.g. bytes.Compare by content) holds for
	// every k: kept inside the quantifier
	var during []*Term
	src := r.assumes
	if sr := (&sub).root(); sr != r && len(sr.assumes) >= nAss {
		src = sr.assumes // the comparator ran under a copy of the root executor
	}
	for _, h := range src[nAss:] {
		if h.bound {
			during = append(during, h)
		}
	}
	if os.Getenv("GOVC_DEBUG") != "" {
		for _, h := range during {
			fmt.Printf("DEBUG assumeSorted during: %s\n", h.Short())
		}
	}
	r.assumes = r.assumes[:nAss]
	if len(res.C) != 1 || res.C[0].sort.K != SBool {
		return false
	}
	// 0 <= k < n-1, written so that k+1 cannot wrap
	rng := And(BVCmp("bvsle", BVI(0, 64), k), BVCmp("bvslt", k, n), BVCmp("bvslt", BVBin("bvadd", k, BVI(1, 64)), n))
	ex.assume(st, Forall([]*Term{k}, Implies(rng, And(append(during, Not(res.C[0]))...))))
	return true
}
