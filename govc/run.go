package main

import (
	"os"
	"fmt"
	"strings"
	"go/token"
	"go/types"

	"golang.org/x/tools/go/ssa"
	"sort"
)

// verifyFunction generates all obligations for fn against its contract.
func (eng *Engine) verifyFunction(fn *ssa.Function, key string, c *Contract) (res verifyResult) {
	ex := eng.newExecutor(fn, key, c, nil)
	ex.safety = !c.NoSafety && !c.AtcallOnly
	if al := eng.renamedLocals(key, fn); al != nil {
		ex.aliases = al
		var names []string
		for o, n := range al {
			names = append(names, o+" -> "+n)
		}
		sort.Strings(names)
		ex.abstracted["locals renamed since the baseline (same position and type), contract names follow: "+strings.Join(names, ", ")]++
	}
	defer func() {
		if r := recover(); r != nil {
			if u, ok := r.(unsupported); ok {
				res.err = u
				res.obls = nil
				return
			}
			panic(r)
		}
	}()
	if len(fn.Blocks) == 0 {
		return verifyResult{err: unsupported{"no body"}}
	}
	ex.classifyCells()
	ex.findLoops()
	for _, li := range ex.loops {
		if li.lc == nil || (li.lc.Unroll == 0 && len(li.lc.Invariants) == 0) {
			// a loop without invariant: cut with invariant "true"
			if li.lc == nil {
				li.lc = &LoopContract{}
			}
		}
	}
	for idx := range c.Loops {
		if idx < 1 || idx > len(ex.loops) {
			panic(unsupported{fmt.Sprintf("contract-stale: loop %d does not exist (function has %d loops)", idx, len(ex.loops))})
		}
	}
	st := &state{pc: True, cells: map[*cellRef]Value{}, heaps: map[string]*Heap{}, alloc: Var("alloc0", IntSort)}
	st.epochs = []epochAlt{{sel: True, tag: "0", bound: st.alloc}}
	AddFact(st.alloc, ILe(IntC(1), st.alloc))
	// parameters
	for i, p := range fn.Params {
		v := freshValue("in."+p.Name(), p.Type())
		ex.boundRefs(v, p.Type(), st.alloc)
		ex.env[envKey{"", p}] = v
		name := p.Name()
		if name == "" || name == "_" {
			name = fmt.Sprintf("arg%d", i)
		}
		ex.params[name] = v
		ex.paramVals = append(ex.paramVals, v)
		for j, ct := range v.C {
			ex.inputs = append(ex.inputs, inputSym{fmt.Sprintf("%s.%d", name, j), ct})
		}
	}
	for _, fv := range fn.FreeVars {
		v := freshValue("fv."+fv.Name(), fv.Type())
		ex.boundRefs(v, fv.Type(), st.alloc)
		ex.env[envKey{"", fv}] = v
		if ex.freeVars == nil {
			ex.freeVars = map[string]Value{}
		}
		ex.freeVars[fv.Name()] = v
	}
	ex.entry = st.clone()
	// requires
	for _, r := range c.Requires {
		t := ex.evalBoolClause(r, st, ex.entry, nil)
		ex.assume(st, t)
	}
	for _, u := range c.Unfolds {
		ex.applyUnfold(u, st)
	}
	// vacuity: requires satisfiable
	if len(c.Requires) > 0 {
		o := ex.addObligation(st, "vacuity", "requires-satisfiable", False, token.NoPos)
		o.Cover = true
	}
	if c.CheckOwnership {
		ex.ownershipObligations(st)
	}
	if !c.OwnershipOnly {
		ex.runBody(st)
	}
	res.obls = ex.obls
	if c.AtcallOnly {
		var kept []*Obligation
		for _, o := range ex.obls {
			// (and the invariants of its loops, which the call-site assertions inside a loop rest on)
			if o.Kind == "atcall" || o.Kind == "inv-entry" || o.Kind == "inv-preserved" {
				kept = append(kept, o)
			}
		}
		res.obls = kept
	}
	res.abstracted = ex.abstracted
	for k := range ex.inlined {
		res.inlined = append(res.inlined, k)
	}
	for k := range ex.callees {
		res.callees = append(res.callees, k)
	}
	return res
}

// boundRefs attaches "allocated before `bound`" facts to reference components.
func (ex *executor) boundRefs(v Value, t types.Type, bound *Term) {
	kinds := leafKinds(t)
	for i, k := range kinds {
		if k == leafRef && v.C[i].op == "var" {
			AddFact(v.C[i], And(ILe(IntC(0), v.C[i]), ILt(v.C[i], bound)))
		}
	}
}

type leafKind int

const (
	leafOther leafKind = iota
	leafRef
	leafStr
)

var leafMemo = map[string][]leafKind{}

func leafKinds(t types.Type) []leafKind {
	k := typeKey(t)
	if r, ok := leafMemo[k]; ok {
		return r
	}
	var out []leafKind
	switch u := t.Underlying().(type) {
	case *types.Basic:
		if u.Info()&types.IsString != 0 {
			out = []leafKind{leafStr}
		} else if u.Kind() == types.UnsafePointer || u.Kind() == types.UntypedNil {
			out = []leafKind{leafRef}
		} else {
			out = []leafKind{leafOther}
		}
	case *types.Pointer, *types.Map, *types.Chan, *types.Signature:
		out = []leafKind{leafRef}
	case *types.Slice:
		out = []leafKind{leafRef, leafOther, leafOther, leafOther}
	case *types.Interface:
		// the payload may be a pointer, a boxed value or a constant error identity: no allocation bound
		out = []leafKind{leafOther, leafOther}
	case *types.Array:
		out = []leafKind{leafRef}
	case *types.Struct:
		for i := 0; i < u.NumFields(); i++ {
			out = append(out, leafKinds(u.Field(i).Type())...)
		}
	case *types.Tuple:
		for i := 0; i < u.Len(); i++ {
			out = append(out, leafKinds(u.At(i).Type())...)
		}
	}
	leafMemo[k] = out
	return out
}

// runBody executes the function body from state st; obligations for ensures /
// frame are generated at returns (for the root executor) or results collected
// (for inlined executors).
func (ex *executor) runBody(st *state) []*state {
	fn := ex.fn
	entry := ex.getNode(fn.Blocks[0], "", 0, nil)
	order := ex.topo(entry)
	entry.in = append(entry.in, inEdge{st: st})
	for _, n := range order {
		var ins []*state
		for _, e := range n.in {
			ins = append(ins, e.st)
		}
		cur := ex.mergeStates(ins)
		if cur == nil {
			continue
		}
		ex.curCtx = n.ctx
		ex.curNode = n
		if ex.anc == nil {
			ex.anc = map[*node]map[*node]bool{}
		}
		an := map[*node]bool{}
		for _, e := range n.in {
			if e.fromNode != nil {
				an[e.fromNode] = true
				for a := range ex.anc[e.fromNode] {
					an[a] = true
				}
			}
		}
		ex.anc[n] = an
		switch n.kind {
		case 1:
			ex.backEdgeStates = nil
			if len(ins) > 1 && len(ins) <= 6 {
				// the invariants are checked per incoming path (smaller queries than on the merged state)
				for _, s := range ins {
					if s != nil && !s.dead && s.pc != False {
						ex.backEdgeStates = append(ex.backEdgeStates, s)
					}
				}
			}
			ex.loopBack(n, cur)
			ex.backEdgeStates = nil
			continue
		case 2:
			ex.addObligation(cur, "unwind", fmt.Sprintf("loop %d unroll %d complete", n.loop.index, n.loop.lc.Unroll), Not(cur.pc), n.loop.pos)
			continue
		}
		// phi nodes need per-edge values: evaluate before merging — handled by
		// storing per-edge phi values at edge creation (see pushEdges).
		if li := ex.loopOf[n.blk]; li != nil && !li.unrolled() {
			ex.loopEnter(n, li, cur)
		}
		ex.execBlock(n, cur)
	}
	return nil
}

func (ex *executor) execBlock(n *node, st *state) {
	b := n.blk
	for _, in := range b.Instrs {
		if st.dead {
			return
		}
		switch t := in.(type) {
		case *ssa.Phi:
			// value computed on edges
			if _, ok := ex.lookupEnvExact(t); !ok {
				panic(unsupported{"phi without incoming values"})
			}
		case *ssa.If:
			c := ex.val(t.Cond).C[0]
			ex.pushEdge(n, 0, st, c)
			ex.pushEdge(n, 1, st, Not(c))
		case *ssa.Jump:
			ex.pushEdge(n, 0, st, True)
		case *ssa.Return:
			ex.doReturn(st, t)
		case *ssa.Panic:
			if ex.safety && !(ex.root().contract != nil && ex.root().contract.MayPanic) {
				ex.addObligation(st, "panic", "explicit panic unreachable"+ex.srcText(t.Pos(), ""), Not(st.pc), t.Pos())
			}
			st.dead = true
		default:
			ex.execInstr(st, in)
		}
	}
}

func (ex *executor) lookupEnvExact(v ssa.Value) (Value, bool) {
	val, ok := ex.env[envKey{ex.curCtx, v}]
	return val, ok
}

// pushEdge sends a copy of st along successor idx with extra condition c and
// evaluates phi operands of the target for this edge.
func (ex *executor) pushEdge(n *node, idx int, st *state, c *Term) {
	if c == False {
		return
	}
	e := n.succs[idx]
	ns := st.clone()
	ns.pc = And(st.pc, c)
	// phis in target
	tb := e.to.blk
	predIdx := -1
	cnt := 0
	for i, p := range tb.Preds {
		if p == n.blk {
			// the k-th occurrence of n.blk among preds corresponds to the k-th successor edge to tb
			if cnt == occurrence(n.blk, idx) {
				predIdx = i
			}
			cnt++
		}
	}
	if predIdx >= 0 && e.to.kind == 0 {
		for _, in := range tb.Instrs {
			phi, ok := in.(*ssa.Phi)
			if !ok {
				break
			}
			v := ex.val(phi.Edges[predIdx])
			k := envKey{e.to.ctx, phi}
			if old, ok := ex.env[k]; ok {
				ex.env[k] = valueIte(ns.pc, v, old)
			} else {
				ex.env[k] = v
			}
		}
	}
	e.to.in = append(e.to.in, inEdge{st: ns, from: n.blk, fromNode: n})
}

func occurrence(b *ssa.BasicBlock, succIdx int) int {
	t := b.Succs[succIdx]
	k := 0
	for i := 0; i < succIdx; i++ {
		if b.Succs[i] == t {
			k++
		}
	}
	return k
}

// ---------- loops ----------

func (ex *executor) loopEnter(n *node, li *loopInfo, st *state) {
	lc := li.lc
	ex.curLoop = li
	defer func() { ex.curLoop = nil }()
	// 1. invariant holds on entry
	for i, inv := range lc.Invariants {
		t := ex.evalBoolClause(inv, st, ex.root().entry, nil)
		ex.addObligation(st, "inv-entry", fmt.Sprintf("loop %d %s", li.index, clauseLabel(inv, i)), Implies(st.pc, t), li.pos)
	}
	// 2. havoc everything the loop may modify
	ex.havocLoop(li, st)
	// 3. assume invariant
	for _, inv := range lc.Invariants {
		t := ex.evalBoolClause(inv, st, ex.root().entry, nil)
		ex.assume(st, t)
	}
	// an invariant conjunct `x == e` for a variable x havocked by this loop: continue with e as the value of
	// x (it is equal, and later expressions over x then coincide syntactically with specifications over e)
	ex.substInvariantEqualities(lc, st)
	for _, u := range lc.Unfolds {
		ex.applyUnfold(u, st)
	}
	if lc.Decreases != nil {
		v := ex.evalClause(lc.Decreases, st, ex.root().entry, nil)
		ex.env[envKey{n.ctx, decKey{li}}] = v
	}
	if len(lc.Invariants) > 0 {
		o := ex.addObligation(st, "vacuity", fmt.Sprintf("loop %d invariant-satisfiable", li.index), False, li.pos)
		o.Cover = true
	}
}

// decKey is a pseudo ssa.Value used to remember the variant at loop head.
type decKey struct{ li *loopInfo }

func (decKey) Name() string                  { return "dec" }
func (decKey) String() string                { return "dec" }
func (decKey) Type() types.Type              { return nil }
func (decKey) Parent() *ssa.Function         { return nil }
func (decKey) Referrers() *[]ssa.Instruction { return nil }
func (decKey) Pos() token.Pos                { return token.NoPos }

func (ex *executor) loopBack(n *node, st *state) {
	li := n.loop
	lc := li.lc
	ex.curLoop = li
	defer func() { ex.curLoop = nil }()
	for i, inv := range lc.Invariants {
		t := ex.evalBoolClause(inv, st, ex.root().entry, nil)
		if ex.assumedUnder(st, t) {
			// the very same fact was assumed on this path (nothing it reads was written): trivially preserved
			ex.addObligation(st, "inv-preserved", fmt.Sprintf("loop %d %s", li.index, clauseLabel(inv, i)), True, li.pos)
			continue
		}
		o := ex.addObligation(st, "inv-preserved", fmt.Sprintf("loop %d %s", li.index, clauseLabel(inv, i)), Implies(st.pc, t), li.pos)
		if len(ex.backEdgeStates) > 1 && hasQuant(t) {
			for _, bs := range ex.backEdgeStates {
				bt := ex.evalBoolClause(inv, bs, ex.root().entry, nil)
				if ex.assumedUnder(bs, bt) {
					continue
				}
				o.Parts = append(o.Parts, Implies(bs.pc, bt))
			}
			if len(o.Parts) == 1 {
				o.Goal, o.Parts = o.Parts[0], nil
			}
		}
	}
	ex.loopFrameObligation(li, st)
	if lc.Decreases != nil {
		old, ok := ex.env[envKey{n.ctx, decKey{li}}]
		if ok {
			nv := ex.evalClause(lc.Decreases, st, ex.root().entry, nil)
			var goal *Term
			if isInteger(nv.T) && !isSigned(nv.T) {
				goal = BVCmp("bvult", nv.C[0], old.C[0])
			} else {
				goal = And(BVCmp("bvslt", nv.C[0], old.C[0]), BVCmp("bvsge", old.C[0], BVI(0, old.C[0].sort.W)))
			}
			ex.addObligation(st, "decreases", fmt.Sprintf("loop %d", li.index), Implies(st.pc, goal), li.pos)
		}
	}
}

type loopFrame struct {
	allowed func(name string, key []*Term) *Term
	head    map[string]*Heap
	epochs  []epochAlt
}

// loopFrameObligation: at the back edge, everything outside the loop's assigns clause
// still has the value it had at the loop head.
func (ex *executor) loopFrameObligation(li *loopInfo, st *state) {
	lf := ex.loopFrames[li]
	if lf == nil {
		return
	}
	if !epochsEqual(st.epochs, lf.epochs) {
		ex.addObligation(st, "loop-frame", fmt.Sprintf("loop %d no unframed call", li.index), Not(st.pc), li.pos)
		return
	}
	var goals []*Term
	for name, h := range st.heaps {
		if strings.HasPrefix(name, "R:") || name == verClassName {
			continue
		}
		cls := ex.eng.classes[name]
		h0, ok := lf.head[name]
		if !ok {
			// class first touched inside the loop: its head value is the (unhavocked) base
			hs := &state{heaps: map[string]*Heap{}, epochs: lf.epochs}
			h0 = ex.heapOf(hs, cls)
		}
		if h0 == h {
			continue
		}
		key := make([]*Term, len(cls.Key))
		for i, s := range cls.Key {
			key[i] = FreshVar("lfk", s)
		}
		g := Implies(Not(lf.allowed(name, key)), Eq(h.Read(key), h0.Read(key)))
		goals = append(goals, g)
		if os.Getenv("GOVC_FRAME_SPLIT") != "" {
			ex.addObligation(st, "loop-frame", fmt.Sprintf("loop %d class %s", li.index, shortFnKey(name)), Implies(st.pc, g), li.pos)
		}
	}
	fo := ex.addObligation(st, "loop-frame", fmt.Sprintf("loop %d assigns", li.index), Implies(st.pc, And(goals...)), li.pos)
	if len(goals) > 1 {
		for _, g := range goals {
			fo.Parts = append(fo.Parts, Implies(st.pc, g))
		}
	}
}

func clauseLabel(c *Clause, i int) string {
	if c.Label != "" {
		return c.Label
	}
	return fmt.Sprintf("#%d", i+1)
}

// havocLoop replaces everything the loop body may write by fresh symbols.
func (ex *executor) havocLoop(li *loopInfo, st *state) {
	na := FreshVar("alloc", IntSort)
	ex.assume(st, ILe(st.alloc, na))
	var ghostVisited []string
	all := false
	classes := map[string]bool{}
	for b := range li.body {
		for _, in := range b.Instrs {
			switch t := in.(type) {
			case *ssa.Store:
				if a, ok := t.Addr.(*ssa.Alloc); ok {
					if c := ex.cells[a]; c != nil {
						if _, has := st.cells[c]; has {
							st.cells[c] = freshValue("lp."+c.name, c.typ)
							ex.boundRefs(st.cells[c], c.typ, na)
						}
						continue
					}
				}
				for _, cn := range ex.storeClasses(t.Addr) {
					classes[cn] = true
				}
			case *ssa.Alloc:
				if c := ex.cells[t]; c != nil {
					if _, has := st.cells[c]; has {
						st.cells[c] = freshValue("lp."+c.name, c.typ)
						ex.boundRefs(st.cells[c], c.typ, na)
					}
				}
			case *ssa.MapUpdate:
				for _, cn := range ex.mapClasses(t.Map.Type()) {
					classes[cn] = true
				}
			case *ssa.Next:
				if rg, ok := t.Iter.(*ssa.Range); ok && !t.IsString {
					if li.body[rg.Block()] {
						// nested range statement: re-initialised inside the body
					} else {
						ghostVisited = append(ghostVisited, ex.visitedClass(rg).Name, ex.nvisitedClass(rg).Name)
					}
				}
			case ssa.CallInstruction:
				eff := ex.callEffects(t.Common())
				if eff.all {
					all = true
				}
				for cn := range eff.classes {
					classes[cn] = true
				}
			case *ssa.Send, *ssa.Select:
				all = true
			}
		}
	}
	if all {
		ex.havocAll(st, fmt.Sprintf("loop %d body contains a call without frame", li.index))
		return
	}
	// loop frame (optional): restrict the havoc to the declared locations
	var allowed func(name string, key []*Term) *Term
	var verAllowed func(arr *Term) *Term
	if li.lc.HasAssigns {
		env := ex.mkEnv(nil, st, ex.root().entry, nil)
		freshOK := false
		var locs []*locRef
		for _, a := range li.lc.Assigns {
			if strings.TrimSpace(a.Text) == "fresh" {
				freshOK = true
				continue
			}
			locs = append(locs, ex.evalLoc(a, env)...)
		}
		alloc0 := ex.root().entry.alloc
		allowed = func(name string, key []*Term) *Term {
			var alts []*Term
			for _, l := range locs {
				alts = append(alts, l.covers(name, key))
			}
			if freshOK && len(key) > 0 && key[0].sort.K == SInt && (strings.HasPrefix(name, "P:") || strings.HasPrefix(name, "E:") || strings.HasPrefix(name, "M:")) {
				alts = append(alts, ILe(alloc0, key[0]))
			}
			return Or(alts...)
		}
		verAllowed = func(arr *Term) *Term {
			var alts []*Term
			for _, l := range locs {
				for _, c := range l.classes {
					if c.Name != byteClassName {
						continue
					}
					switch {
					case l.region == nil:
						alts = append(alts, Eq(arr, l.key[0]))
					case l.arr != nil:
						alts = append(alts, Eq(arr, l.arr))
					default:
						alts = append(alts, True)
					}
				}
			}
			if freshOK {
				alts = append(alts, ILe(alloc0, arr))
			}
			return Or(alts...)
		}
	}
	tag := ex.fresh("lp")
	head := map[string]*Heap{}
	if classes[byteClassName] {
		// versions of byte arrays possibly written in the loop
		vc := ex.verClass()
		vh := ex.heapOf(st, vc)
		if verAllowed != nil {
			va := verAllowed
			st.heaps[vc.Name] = vh.Havoc(tag+"ver", func(key []*Term) *Term { return va(key[0]) })
		} else {
			st.heaps[vc.Name] = vh.Havoc(tag+"ver", nil)
		}
	}
	for cn := range classes {
		cls := ex.eng.classes[cn]
		if cls == nil {
			continue
		}
		h := ex.heapOf(st, cls)
		var nh *Heap
		if allowed != nil {
			name := cn
			nh = h.Havoc(tag, func(key []*Term) *Term { return allowed(name, key) })
		} else {
			nh = h.Havoc(tag, nil)
		}
		nh.bound = na
		st.heaps[cn] = nh
		head[cn] = nh
	}
	for _, cn := range ghostVisited {
		if cls := ex.eng.classes[cn]; cls != nil {
			st.heaps[cn] = ex.heapOf(st, cls).Havoc(tag+"v", nil)
		}
	}
	if allowed != nil {
		if ex.loopFrames == nil {
			ex.loopFrames = map[*loopInfo]*loopFrame{}
		}
		snapshot := map[string]*Heap{}
		for k, v := range st.heaps {
			snapshot[k] = v
		}
		ex.loopFrames[li] = &loopFrame{allowed: allowed, head: snapshot, epochs: append([]epochAlt{}, st.epochs...)}
	}
	st.alloc = na
}

// assumedUnder: t was assumed verbatim under a path condition whose conjuncts are all conjuncts of st.pc.
func (ex *executor) assumedUnder(st *state, t *Term) bool {
	conj := map[int]bool{}
	var add func(x *Term)
	add = func(x *Term) {
		if x.op == "and" {
			for _, a := range x.args {
				add(a)
			}
			return
		}
		conj[x.id] = true
	}
	add(st.pc)
	implied := func(pcA *Term) bool {
		if pcA == True {
			return true
		}
		ok := true
		var chk func(x *Term)
		chk = func(x *Term) {
			if x.op == "and" {
				for _, a := range x.args {
					chk(a)
				}
				return
			}
			if !conj[x.id] {
				ok = false
			}
		}
		chk(pcA)
		return ok
	}
	for _, h := range ex.root().assumes {
		if h == t {
			return true
		}
		if h.op == "or" && len(h.args) == 2 {
			for k := 0; k < 2; k++ {
				if h.args[k] == t && h.args[1-k].op == "not" && implied(h.args[1-k].args[0]) {
					return true
				}
			}
		}
	}
	return false
}

func (ex *executor) substInvariantEqualities(lc *LoopContract, st *state) {
	sub := map[int]*Term{}
	var conj func(t *Term)
	conj = func(t *Term) {
		if t.op == "and" {
			for _, a := range t.args {
				conj(a)
			}
			return
		}
		if t.op != "=" || len(t.args) != 2 {
			return
		}
		for k := 0; k < 2; k++ {
			x, e := t.args[k], t.args[1-k]
			if x.op == "var" && strings.HasPrefix(x.name, "lp.") && !e.bound && e.op != "const" && !mentions(e, x) {
				if _, dup := sub[x.id]; !dup {
					sub[x.id] = e
				}
				return
			}
		}
	}
	for _, inv := range lc.Invariants {
		conj(ex.evalBoolClause(inv, st, ex.root().entry, nil))
	}
	if len(sub) == 0 {
		return
	}
	for c, v := range st.cells {
		ch := false
		nc := make([]*Term, len(v.C))
		for i, t := range v.C {
			nc[i] = t
			if e, ok := sub[t.id]; ok && e.sort == t.sort {
				nc[i] = e
				ch = true
			}
		}
		if ch {
			st.cells[c] = Value{T: v.T, K: v.K, C: nc}
		}
	}
}

func mentions(t, x *Term) bool {
	seen := map[int]bool{}
	var rec func(t *Term) bool
	rec = func(t *Term) bool {
		if t == x {
			return true
		}
		if seen[t.id] {
			return false
		}
		seen[t.id] = true
		for _, a := range t.args {
			if rec(a) {
				return true
			}
		}
		return false
	}
	return rec(t)
}
