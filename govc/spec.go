package main

// Evaluation of contract expressions (Go expression syntax + old, forall,
// exists, implies, ite, spec/ghost functions) into terms.

import (
	"fmt"
	"sort"
	"go/ast"
	"go/constant"
	"go/token"
	"go/types"
	"math/big"
	"strconv"
	"strings"

	"golang.org/x/tools/go/ssa"
)

type specEnv struct {
	ex          *executor
	st          *state
	old         *state
	vars        map[string]Value
	pkgPath     string
	calleeCtx   bool // evaluating a callee's contract at a call site: identifiers are only vars
	preferCells bool // loop invariants: names denote current values of locals
	// bctr numbers the bound variables of one clause evaluation: re-evaluating the same clause in another
	// state yields the same bound variables, so unchanged quantified facts stay syntactically identical
	bctr        *int
	cur         *state // inside old(...): the current state (values of non-parameter locals)
	clause      *Clause
	specDepth   int
	callID      *Term
	ifaceNames  []string
	bound       map[string]bool // names bound by quantifiers / let: they shadow program variables
}

type specError struct{ msg string }

func (e specError) Error() string { return e.msg }

func (env *specEnv) fail(format string, a ...interface{}) {
	where := ""
	if env.clause != nil && env.clause.File != "" {
		where = fmt.Sprintf("%s:%d: ", env.clause.File, env.clause.Line)
	}
	panic(unsupported{"contract-stale: " + where + fmt.Sprintf(format, a...)})
}

func (ex *executor) mkEnv(c *Clause, st, old *state, vars map[string]Value) *specEnv {
	r := ex.root()
	pkg := ""
	if r.contract != nil {
		pkg = r.contract.PkgPath
	}
	if ex.contract != nil {
		pkg = ex.contract.PkgPath
	}
	if vars == nil {
		vars = map[string]Value{}
		for k, v := range ex.params {
			vars[k] = v
		}
	}
	return &specEnv{ex: ex, st: st, old: old, vars: vars, pkgPath: pkg, preferCells: true, clause: c, bctr: new(int)}
}

func (ex *executor) evalBoolClause(c *Clause, st, old *state, vars map[string]Value) *Term {
	env := ex.mkEnv(c, st, old, vars)
	return env.evalBool(c.Expr)
}

func (ex *executor) evalClause(c *Clause, st, old *state, vars map[string]Value) Value {
	env := ex.mkEnv(c, st, old, vars)
	return env.eval(c.Expr)
}

func (ex *executor) evalBoolEnv(c *Clause, env *specEnv) *Term {
	env.clause = c
	env.bctr = new(int) // bound variables are numbered per clause evaluation
	return env.evalBool(c.Expr)
}

func (env *specEnv) evalBool(e ast.Expr) *Term {
	v := env.eval(e)
	if len(v.C) != 1 || v.C[0].sort.K != SBool {
		env.fail("expression %s is not boolean", exprString(e))
	}
	return v.C[0]
}

func exprString(e ast.Expr) string { return types.ExprString(e) }

var boolT = types.Typ[types.Bool]
var intT = types.Typ[types.Int]

func boolV(t *Term) Value { return Value{T: boolT, C: []*Term{t}} }

// materialise an untyped constant at type t
func (env *specEnv) toType(v Value, t types.Type) Value {
	if v.K == nil {
		return v
	}
	if t == nil {
		t = intT
	}
	if isInteger(t) {
		w, _ := intWidth(t.Underlying().(*types.Basic))
		return Value{T: t, C: []*Term{BVC(v.K, w)}}
	}
	if isFloat(t) {
		f, _ := new(big.Float).SetInt(v.K).Float64()
		return Value{T: t, C: []*Term{fpConst(f)}}
	}
	if v.K.Sign() == 0 {
		return zeroValue(t)
	}
	env.fail("cannot use constant %s as %s", v.K, typeKey(t))
	return v
}

func (env *specEnv) unify(a, b Value) (Value, Value) {
	if a.K != nil && b.K == nil {
		a = env.toType(a, b.T)
	} else if b.K != nil && a.K == nil {
		b = env.toType(b, a.T)
	}
	return a, b
}

func (env *specEnv) withState(st *state) *specEnv {
	n := *env
	n.st = st
	return &n
}

func (env *specEnv) bind(name string, v Value) *specEnv {
	n := *env
	n.vars = make(map[string]Value, len(env.vars)+1)
	for k, x := range env.vars {
		n.vars[k] = x
	}
	n.vars[name] = v
	n.bound = make(map[string]bool, len(env.bound)+1)
	for k := range env.bound {
		n.bound[k] = true
	}
	n.bound[name] = true
	return &n
}

func (env *specEnv) pkg() *types.Package {
	return env.ex.eng.typesPkg(env.pkgPath)
}

func (env *specEnv) lookupIdent(name string) (Value, bool) {
	ex := env.ex
	if !env.calleeCtx && !env.bound[name] {
		if a, ok := ex.root().aliases[name]; ok {
			if _, isParam := env.vars[name]; !isParam {
				name = a
			}
		}
	}
	if env.bound[name] {
		if v, ok := env.vars[name]; ok {
			return v, true
		}
	}
	if name == "rangeindex" && !env.calleeCtx && ex.curLoop != nil {
		// inside a clause of loop N, `rangeindex` is the hidden index of that very loop
		if c := ex.loopRangeCell(ex.curLoop); c != nil {
			st := env.st
			if env.cur != nil {
				st = env.cur
			}
			if v, has := st.cells[c]; has {
				return v, true
			}
		}
	}
	if env.preferCells && !env.calleeCtx {
		if c, ok := ex.cellName[name]; ok {
			if v, has := env.st.cells[c]; has {
				return v, true
			}
			if _, isParam := env.vars[name]; !isParam {
				return zeroValue(c.typ), true
			}
		}
	}
	if v, ok := env.vars[name]; ok {
		return v, true
	}
	if !env.calleeCtx {
		if c, ok := ex.cellName[name]; ok {
			// inside old(...): a local that is not a parameter keeps its current value (only the
			// memory it points into is the old one)
			if env.cur != nil {
				if v, has := env.cur.cells[c]; has {
					return v, true
				}
			}
			if v, has := env.st.cells[c]; has {
				return v, true
			}
			return zeroValue(c.typ), true
		}
	}
	if !env.calleeCtx {
		if pv, ok := ex.freeVars[name]; ok {
			// captured variable of a closure: current value through its address
			return ex.load(env.st, ex.addrOf(pv)), true
		}
		if pv, ok := ex.heapLocals[name]; ok {
			return ex.load(env.st, ex.addrOf(pv)), true
		}
	}
	switch name {
	case "true":
		return boolV(True), true
	case "false":
		return boolV(False), true
	case "nil":
		return Value{T: types.Typ[types.UntypedNil], C: []*Term{IntC(0)}}, true
	}
	// package-level constant / variable
	if p := env.pkg(); p != nil {
		if obj := p.Scope().Lookup(name); obj != nil {
			return env.objValue(obj)
		}
	}
	return Value{}, false
}

func (env *specEnv) objValue(obj types.Object) (Value, bool) {
	switch o := obj.(type) {
	case *types.Const:
		return env.constValue(o.Val(), o.Type()), true
	case *types.Var:
		a := &Addr{Kind: "global", Root: o.Type(), Glob: o.Pkg().Path() + "." + o.Name()}
		return env.ex.load(env.st, a), true
	}
	return Value{}, false
}

func (env *specEnv) constValue(cv constant.Value, t types.Type) Value {
	switch cv.Kind() {
	case constant.Bool:
		return boolV(BoolC(constant.BoolVal(cv)))
	case constant.Int:
		bi, ok := constant.Val(cv).(*big.Int)
		if !ok {
			i64, _ := constant.Int64Val(cv)
			bi = big.NewInt(i64)
		}
		if b, ok := t.Underlying().(*types.Basic); ok && b.Info()&types.IsUntyped != 0 {
			return Value{K: bi}
		}
		return env.toType(Value{K: bi}, t)
	case constant.String:
		return Value{T: types.Typ[types.String], C: []*Term{strConst(constant.StringVal(cv))}}
	}
	env.fail("unsupported constant %v", cv)
	return Value{}
}

func (env *specEnv) eval(e ast.Expr) Value {
	switch t := e.(type) {
	case *ast.ParenExpr:
		return env.eval(t.X)
	case *ast.BasicLit:
		switch t.Kind {
		case token.INT:
			bi, ok := new(big.Int).SetString(strings.ReplaceAll(t.Value, "_", ""), 0)
			if !ok {
				env.fail("bad integer literal %s", t.Value)
			}
			return Value{K: bi}
		case token.FLOAT:
			f, err := strconv.ParseFloat(t.Value, 64)
			if err != nil {
				env.fail("bad float literal %s", t.Value)
			}
			return Value{T: types.Typ[types.Float64], C: []*Term{fpConst(f)}}
		case token.STRING:
			s, _ := strconv.Unquote(t.Value)
			return Value{T: types.Typ[types.String], C: []*Term{strConst(s)}}
		case token.CHAR:
			s, _, _, _ := strconv.UnquoteChar(t.Value[1:len(t.Value)-1], '\'')
			return Value{K: big.NewInt(int64(s))}
		}
		env.fail("unsupported literal %s", t.Value)
	case *ast.Ident:
		v, ok := env.lookupIdent(t.Name)
		if !ok {
			env.fail("unknown identifier %s", t.Name)
		}
		return v
	case *ast.UnaryExpr:
		x := env.eval(t.X)
		switch t.Op {
		case token.NOT:
			return boolV(Not(x.C[0]))
		case token.SUB:
			if x.K != nil {
				return Value{K: new(big.Int).Neg(x.K)}
			}
			return Value{T: x.T, C: []*Term{BVNeg(x.C[0])}}
		case token.XOR:
			if x.K != nil {
				return Value{K: new(big.Int).Not(x.K)}
			}
			return Value{T: x.T, C: []*Term{BVNot(x.C[0])}}
		case token.AND:
			// &x.f : address
			locs := env.locOf(t.X)
			if len(locs) == 1 && locs[0].addr != nil {
				a := locs[0].addr
				_, _, ft := pathRange(a.Root, a.Path)
				return Value{T: types.NewPointer(ft), C: []*Term{env.ex.addrTerm(a)}, A: a}
			}
		}
		env.fail("unsupported unary %s", t.Op)
	case *ast.StarExpr:
		x := env.eval(t.X)
		a := env.ex.addrOf(x)
		return env.ex.load(env.st, a)
	case *ast.BinaryExpr:
		return env.evalBinary(t)
	case *ast.SelectorExpr:
		return env.evalSelector(t)
	case *ast.IndexExpr:
		return env.evalIndex(t)
	case *ast.SliceExpr:
		x := env.eval(t.X)
		if _, ok := x.T.Underlying().(*types.Slice); !ok {
			env.fail("slice expression on %s", typeKey(x.T))
		}
		lo := BVI(0, 64)
		hi := x.C[2]
		if t.Low != nil {
			lo = env.toInt64(env.eval(t.Low))
		}
		if t.High != nil {
			hi = env.toInt64(env.eval(t.High))
		}
		return Value{T: x.T, C: []*Term{x.C[0], BVBin("bvadd", x.C[1], lo), BVBin("bvsub", hi, lo), BVBin("bvsub", x.C[3], lo)}}
	case *ast.CallExpr:
		return env.evalCall(t)
	}
	env.fail("unsupported expression %s", exprString(e))
	return Value{}
}

func (env *specEnv) toInt64(v Value) *Term {
	if v.K != nil {
		return BVC(v.K, 64)
	}
	if !isInteger(v.T) {
		env.fail("integer expected")
	}
	return Resize(v.C[0], 64, isSigned(v.T))
}

func (env *specEnv) evalBinary(t *ast.BinaryExpr) Value {
	if t.Op == token.LAND || t.Op == token.LOR {
		a := env.evalBool(t.X)
		b := env.evalBool(t.Y)
		if t.Op == token.LAND {
			return boolV(And(a, b))
		}
		return boolV(Or(a, b))
	}
	x := env.eval(t.X)
	y := env.eval(t.Y)
	if x.K != nil && y.K != nil {
		r := new(big.Int)
		switch t.Op {
		case token.ADD:
			return Value{K: r.Add(x.K, y.K)}
		case token.SUB:
			return Value{K: r.Sub(x.K, y.K)}
		case token.MUL:
			return Value{K: r.Mul(x.K, y.K)}
		case token.QUO:
			return Value{K: r.Quo(x.K, y.K)}
		case token.REM:
			return Value{K: r.Rem(x.K, y.K)}
		case token.SHL:
			return Value{K: r.Lsh(x.K, uint(y.K.Int64()))}
		case token.SHR:
			return Value{K: r.Rsh(x.K, uint(y.K.Int64()))}
		case token.EQL:
			return boolV(BoolC(x.K.Cmp(y.K) == 0))
		case token.NEQ:
			return boolV(BoolC(x.K.Cmp(y.K) != 0))
		case token.LSS:
			return boolV(BoolC(x.K.Cmp(y.K) < 0))
		case token.LEQ:
			return boolV(BoolC(x.K.Cmp(y.K) <= 0))
		case token.GTR:
			return boolV(BoolC(x.K.Cmp(y.K) > 0))
		case token.GEQ:
			return boolV(BoolC(x.K.Cmp(y.K) >= 0))
		}
		env.fail("unsupported constant operation %s", t.Op)
	}
	if t.Op == token.SHL || t.Op == token.SHR {
		if x.K != nil {
			x = env.toType(x, intT)
		}
		if y.K != nil {
			y = env.toType(y, types.Typ[types.Uint64])
		}
	} else {
		x, y = env.unify(x, y)
	}
	if x.T == nil || y.T == nil {
		env.fail("untyped operand in %s", exprString(t))
	}
	// equality on composite values
	if t.Op == token.EQL || t.Op == token.NEQ {
		if len(x.C) != len(y.C) {
			// comparison with nil
			if len(y.C) == 1 && y.C[0].IsConst() {
				y = zeroValue(x.T)
			} else if len(x.C) == 1 && x.C[0].IsConst() {
				x = zeroValue(y.T)
			} else {
				env.fail("comparison of differently shaped values in %s", exprString(t))
			}
			// nil comparison of slices / interfaces: first component only
			e := Eq(x.C[0], y.C[0])
			if t.Op == token.NEQ {
				e = Not(e)
			}
			return boolV(e)
		}
		if _, isSl := x.T.Underlying().(*types.Slice); isSl {
			// spec-level slice equality: same header
			e := valuesEq(x, y)
			if t.Op == token.NEQ {
				e = Not(e)
			}
			return boolV(e)
		}
		if len(x.C) != 1 || (!isInteger(x.T) && !isBool(x.T) && !isFloat(x.T) && !isString(x.T)) {
			e := valuesEq(x, y)
			if t.Op == token.NEQ {
				e = Not(e)
			}
			return boolV(e)
		}
	}
	if isInteger(x.T) && isInteger(y.T) && x.C[0].sort != y.C[0].sort && t.Op != token.SHL && t.Op != token.SHR {
		env.fail("mismatched integer types %s and %s in %s", typeKey(x.T), typeKey(y.T), exprString(t))
	}
	rt := x.T
	switch t.Op {
	case token.EQL, token.NEQ, token.LSS, token.LEQ, token.GTR, token.GEQ:
		rt = boolT
	}
	sub := *env.ex
	sub.safety = false
	return (&sub).binopNoAssume(env.st, t.Op, x, y, x.T, y.T, rt)
}

// binopNoAssume: binop without obligations/assumptions (spec context).
func (ex *executor) binopNoAssume(st *state, op token.Token, x, y Value, xt, yt, rt types.Type) Value {
	saved := ex.root().assumes
	n := len(saved)
	v := ex.binop(st, op, x, y, xt, yt, rt, token.NoPos)
	r := ex.root()
	r.assumes = r.assumes[:n]
	return v
}

func (env *specEnv) evalSelector(t *ast.SelectorExpr) Value {
	// package-qualified name?
	if id, ok := t.X.(*ast.Ident); ok {
		if _, isVar := env.lookupIdent(id.Name); !isVar {
			if p := env.ex.eng.importedPkg(env.pkgPath, id.Name); p != nil {
				obj := p.Scope().Lookup(t.Sel.Name)
				if obj == nil {
					env.fail("unknown %s.%s", id.Name, t.Sel.Name)
				}
				v, ok := env.objValue(obj)
				if !ok {
					env.fail("unsupported package member %s.%s", id.Name, t.Sel.Name)
				}
				return v
			}
		}
	}
	x := env.eval(t.X)
	return env.selectField(x, t.Sel.Name)
}

func findField(st *types.Struct, name string) int {
	for i := 0; i < st.NumFields(); i++ {
		if st.Field(i).Name() == name {
			return i
		}
	}
	return -1
}

func (env *specEnv) selectField(x Value, name string) Value {
	if x.T == nil {
		env.fail("field %s of untyped value", name)
	}
	switch u := x.T.Underlying().(type) {
	case *types.Pointer:
		st, ok := u.Elem().Underlying().(*types.Struct)
		if !ok {
			env.fail("field %s of non-struct pointer %s", name, typeKey(x.T))
		}
		i := findField(st, name)
		if i < 0 {
			if fp := fieldPath(st, name, 0); fp != nil {
				a := env.ex.addrOf(x)
				if a.Kind != "cell" {
					na := *a
					na.Path = append(append([]int{}, a.Path...), fp...)
					return env.ex.load(env.st, &na)
				}
			}
			// promoted field through embedded struct
			for j := 0; j < st.NumFields(); j++ {
				if st.Field(j).Embedded() {
					a := env.ex.addrOf(x)
					na := *a
					na.Path = append(append([]int{}, a.Path...), j)
					inner := Value{T: types.NewPointer(st.Field(j).Type()), C: []*Term{env.ex.addrTerm(&na)}, A: &na}
					if _, isPtr := st.Field(j).Type().Underlying().(*types.Pointer); isPtr {
						inner = env.ex.load(env.st, &na)
					}
					if hasField(inner.T, name) {
						return env.selectField(inner, name)
					}
				}
			}
			env.fail("type %s has no field %s", typeKey(u.Elem()), name)
		}
		a := env.ex.addrOf(x)
		if a.Kind == "cell" {
			v := env.ex.load(env.st, a)
			return env.selectField(v, name)
		}
		na := *a
		na.Path = append(append([]int{}, a.Path...), i)
		return env.ex.load(env.st, &na)
	case *types.Struct:
		i := findField(u, name)
		if i < 0 {
			env.fail("type %s has no field %s", typeKey(x.T), name)
		}
		lo, hi := fieldRange(u, i)
		return Value{T: u.Field(i).Type(), C: x.C[lo:hi]}
	}
	env.fail("selector .%s on %s", name, typeKey(x.T))
	return Value{}
}

func hasField(t types.Type, name string) bool {
	if p, ok := t.Underlying().(*types.Pointer); ok {
		t = p.Elem()
	}
	st, ok := t.Underlying().(*types.Struct)
	if !ok {
		return false
	}
	return findField(st, name) >= 0
}

func (env *specEnv) evalIndex(t *ast.IndexExpr) Value {
	x := env.eval(t.X)
	if x.T == nil {
		env.fail("index of untyped value")
	}
	switch u := x.T.Underlying().(type) {
	case *types.Slice:
		i := env.toInt64(env.eval(t.Index))
		env.ex.noteIndex(i)
		a := &Addr{Kind: "elem", Base: x.C[0], Idx: BVBin("bvadd", x.C[1], i), Root: u.Elem()}
		return env.ex.load(env.st, a)
	case *types.Map:
		k := env.eval(t.Index)
		k = env.toType(k, u.Key())
		v, _ := env.ex.mapLookup(env.st, x.T, x.C[0], k)
		return v
	case *types.Basic:
		if isString(x.T) {
			i := env.toInt64(env.eval(t.Index))
			return Value{T: types.Typ[types.Uint8], C: []*Term{App("strbyte", BV(8), x.C[0], i)}}
		}
	case *types.Array:
		i := env.toInt64(env.eval(t.Index))
		a := &Addr{Kind: "elem", Base: x.C[0], Idx: i, Root: u.Elem()}
		return env.ex.load(env.st, a)
	case *types.Pointer:
		if at, ok := u.Elem().Underlying().(*types.Array); ok {
			i := env.toInt64(env.eval(t.Index))
			a := &Addr{Kind: "elem", Base: x.C[0], Idx: i, Root: at.Elem()}
			return env.ex.load(env.st, a)
		}
	}
	env.fail("index on %s", typeKey(x.T))
	return Value{}
}

func (env *specEnv) evalCall(t *ast.CallExpr) Value {
	eng := env.ex.eng
	if id, ok := t.Fun.(*ast.Ident); ok {
		switch id.Name {
		case "atlock":
			// atlock(e): e evaluated right after the most recent exclusive acquisition of a guarding mutex
			if env.st == nil || env.st.atLock == nil {
				// no exclusive acquisition on this path: the value is unconstrained
				v := env.eval(t.Args[0])
				if v.T == nil {
					env.fail("atlock(): no exclusive acquisition of a guarding mutex on this path")
				}
				return freshValue("atlock.none", v.T)
			}
			{
				n := *env
				n.st = env.st.atLock
				n.preferCells = false
				if n.cur == nil {
					n.cur = env.st
				}
				return n.eval(t.Args[0])
			}
		case "old":
			n := *env
			n.st = env.old
			n.preferCells = false
			if n.cur == nil {
				n.cur = env.st
			}
			return n.eval(t.Args[0])
		case "implies":
			return boolV(Implies(env.evalBool(t.Args[0]), env.evalBool(t.Args[1])))
		case "ite":
			c := env.evalBool(t.Args[0])
			a, b := env.unify(env.eval(t.Args[1]), env.eval(t.Args[2]))
			if a.K != nil {
				a, b = env.toType(a, intT), env.toType(b, intT)
			}
			return valueIte(c, a, b)
		case "forall", "exists":
			// forall(i, lo, hi, body) over int; forall(i T, body) is not parseable, use forallT(i, T, body)
			if len(t.Args) != 4 {
				env.fail("%s(i, lo, hi, body) expected", id.Name)
			}
			vn := t.Args[0].(*ast.Ident).Name
			lo := env.toInt64(env.eval(t.Args[1]))
			hi := env.toInt64(env.eval(t.Args[2]))
			if lo.IsConst() && hi.IsConst() {
				l, h := lo.SignedVal().Int64(), hi.SignedVal().Int64()
				if h-l <= 64 {
					var parts []*Term
					for i := l; i < h; i++ {
						ne := env.bind(vn, Value{T: intT, C: []*Term{BVI(i, 64)}})
						parts = append(parts, ne.evalBool(t.Args[3]))
					}
					if id.Name == "forall" {
						return boolV(And(parts...))
					}
					return boolV(Or(parts...))
				}
			}
			bv := env.boundVar(vn, BV(64))
			ne := env.bind(vn, Value{T: intT, C: []*Term{bv}})
			body := ne.evalBool(t.Args[3])
			rng := And(BVCmp("bvsle", lo, bv), BVCmp("bvslt", bv, hi))
			if id.Name == "forall" {
				return boolV(Forall([]*Term{bv}, Implies(rng, body)))
			}
			return boolV(Exists([]*Term{bv}, And(rng, body)))
		case "forallT", "existsT":
			// forallT(x, T, body)
			vn := t.Args[0].(*ast.Ident).Name
			ty := eng.resolveType(t.Args[1], env.pkgPath)
			if ty == nil {
				env.fail("unknown type %s", exprString(t.Args[1]))
			}
			sh := shapeOf(ty)
			v := Value{T: ty}
			var bvs []*Term
			for i, s := range sh {
				b := env.boundVar(fmt.Sprintf("%s.%d", vn, i), s)
				bvs = append(bvs, b)
				v.C = append(v.C, b)
			}
			ne := env.bind(vn, v)
			body := ne.evalBool(t.Args[2])
			if id.Name == "forallT" {
				return boolV(Forall(bvs, body))
			}
			return boolV(Exists(bvs, body))
		case "let":
			// let(x, e, body)
			vn := t.Args[0].(*ast.Ident).Name
			v := env.eval(t.Args[1])
			if v.K != nil {
				v = env.toType(v, intT)
			}
			return env.bind(vn, v).eval(t.Args[2])
		case "len":
			x := env.eval(t.Args[0])
			switch x.T.Underlying().(type) {
			case *types.Slice:
				return Value{T: intT, C: []*Term{x.C[2]}}
			case *types.Basic:
				return Value{T: intT, C: []*Term{strLen(x.C[0])}}
			case *types.Map:
				_, _, ln := env.ex.mapClassesFor(x.T)
				return Value{T: intT, C: []*Term{env.ex.heapOf(env.st, ln).Read([]*Term{x.C[0]})}}
			case *types.Array:
				return Value{T: intT, C: []*Term{BVI(x.T.Underlying().(*types.Array).Len(), 64)}}
			}
			env.fail("len of %s", typeKey(x.T))
		case "cap":
			x := env.eval(t.Args[0])
			if _, ok := x.T.Underlying().(*types.Slice); ok {
				return Value{T: intT, C: []*Term{x.C[3]}}
			}
			env.fail("cap of %s", typeKey(x.T))
		case "has":
			// has(m, k): map domain
			m := env.eval(t.Args[0])
			mt, ok := m.T.Underlying().(*types.Map)
			if !ok {
				env.fail("has() on non-map")
			}
			k := env.toType(env.eval(t.Args[1]), mt.Key())
			_, in := env.ex.mapLookup(env.st, m.T, m.C[0], k)
			return boolV(in)
		case "callid":
			if env.callID == nil {
				env.fail("callid() is only available in a callee contract applied at a call site")
			}
			return Value{T: intT, C: []*Term{env.callID}}
		case "visited", "nvisited":
			// visited(k): key k has already been produced by the map range statement of the current loop
			// nvisited(): the number of keys produced so far
			li := env.ex.curLoop
			if li == nil {
				env.fail("visited() is only available in invariants of a map range loop")
			}
			var rg *ssa.Range
			for b := range li.body {
				for _, in := range b.Instrs {
					if nx, ok := in.(*ssa.Next); ok && !nx.IsString {
						if r, ok := nx.Iter.(*ssa.Range); ok && !li.body[r.Block()] {
							rg = r
						}
					}
				}
			}
			if rg == nil {
				env.fail("visited(): the loop is not a map range loop")
			}
			if id.Name == "nvisited" {
				return Value{T: intT, C: []*Term{env.ex.heapOf(env.st, env.ex.nvisitedClass(rg)).Read(nil)}}
			}
			mt := rg.X.Type().Underlying().(*types.Map)
			k := env.toType(env.eval(t.Args[0]), mt.Key())
			cls := env.ex.visitedClass(rg)
			return boolV(env.ex.heapOf(env.st, cls).Read(k.C))
		case "disjoint":
			// disjoint(a, b): the two slices do not share a backing array
			a, b := env.eval(t.Args[0]), env.eval(t.Args[1])
			return boolV(Or(Not(Eq(a.C[0], b.C[0])), Eq(a.C[0], IntC(0))))
		case "samearray":
			// samearray(a, b): slices over the same backing array from the same offset with the same
			// capacity (what an in-place append preserves)
			a, b := env.eval(t.Args[0]), env.eval(t.Args[1])
			return boolV(And(Eq(a.C[0], b.C[0]), Eq(a.C[1], b.C[1]), Eq(a.C[3], b.C[3])))
		case "isnil":
			x := env.eval(t.Args[0])
			return boolV(Eq(x.C[0], IntC(0)))
		case "fresh":
			// fresh(p): p was allocated after function entry (and, as every object, before the state it is
			// evaluated in - which bounds references that are only reached through a quantifier)
			x := env.eval(t.Args[0])
			if env.st != nil && env.st.alloc != nil {
				return boolV(And(ILe(env.ex.root().entry.alloc, x.C[0]), ILt(x.C[0], env.st.alloc)))
			}
			return boolV(ILe(env.ex.root().entry.alloc, x.C[0]))
		case "unwrap":
			// unwrap(x, T): the value of dynamic type T stored in interface value x (pointer-shaped T only)
			x := env.eval(t.Args[0])
			ty := eng.resolveType(t.Args[1], env.pkgPath)
			if ty == nil || len(shapeOf(ty)) != 1 {
				env.fail("unwrap expects a pointer-shaped type")
			}
			return Value{T: ty, C: []*Term{x.C[1]}}
		case "cmpS":
			// cmpS(a, b): sign of the lexicographic comparison of two byte strings.  The order is a countable total
			// order, so it embeds into the reals: strings are ranked by an uninterpreted injective strrank into Real
			// and compared there, which makes totality, antisymmetry and transitivity arithmetic facts.
			if len(t.Args) == 2 {
				a, b := env.eval(t.Args[0]), env.eval(t.Args[1])
				if len(a.C) == 1 && len(b.C) == 1 && a.C[0].sort.K == SInt && b.C[0].sort.K == SInt {
					ra, rb := App("strrank", RealSort, a.C[0]), App("strrank", RealSort, b.C[0])
					res := Ite(ILt(ra, rb), BVI(-1, 64), Ite(ILt(rb, ra), BVI(1, 64), BVI(0, 64)))
					if !a.C[0].bound && !b.C[0].bound {
						AddFact(ra, Implies(Eq(ra, rb), Eq(a.C[0], b.C[0])))
						AddFact(rb, Implies(Eq(ra, rb), Eq(a.C[0], b.C[0])))
					}
					return Value{T: intT, C: []*Term{res}}
				}
			}
			env.fail("cmpS takes two strings")
		case "typeis":
			// typeis(x, T): dynamic type of interface value x is T
			x := env.eval(t.Args[0])
			ty := eng.resolveType(t.Args[1], env.pkgPath)
			if ty == nil {
				env.fail("unknown type %s", exprString(t.Args[1]))
			}
			return boolV(Eq(x.C[0], eng.typeID(ty)))
		case "slot", "allof":
		}
		// conversions to basic types
		if ty := eng.resolveType(id, env.pkgPath); ty != nil && len(t.Args) == 1 {
			if _, isVar := env.vars[id.Name]; !isVar {
				return env.convertTo(env.eval(t.Args[0]), ty)
			}
		}
		// spec / ghost functions
		if sf := eng.cs.Specs[id.Name]; sf != nil {
			return env.callSpec(sf, t.Args)
		}
		if g := eng.cs.Ghosts[id.Name]; g != nil {
			clss, key := env.ghostRef(g, t.Args)
			rt := eng.resolveType(g.Result, g.PkgPath)
			v := Value{T: rt}
			for _, cls := range clss {
				v.C = append(v.C, env.ex.heapOf(env.st, cls).Read(key))
			}
			return v
		}
		// package-level Go function in the contract's package
		if fn := eng.lookupFunc(env.pkgPath + "." + id.Name); fn != nil {
			var args []Value
			for i, a := range t.Args {
				v := env.eval(a)
				if v.K != nil && i < fn.Signature.Params().Len() {
					v = env.toType(v, fn.Signature.Params().At(i).Type())
				}
				args = append(args, v)
			}
			return env.callGo(fn, args)
		}
		env.fail("unknown function %s", id.Name)
	}
	if sel, ok := t.Fun.(*ast.SelectorExpr); ok {
		// pkg.Func(...)
		if id, ok := sel.X.(*ast.Ident); ok {
			if _, isVar := env.lookupIdent(id.Name); !isVar {
				if p := eng.importedPkg(env.pkgPath, id.Name); p != nil {
					key := p.Path() + "." + sel.Sel.Name
					// type conversion pkg.T(x)
					if obj := p.Scope().Lookup(sel.Sel.Name); obj != nil {
						if tn, ok := obj.(*types.TypeName); ok && len(t.Args) == 1 {
							return env.convertTo(env.eval(t.Args[0]), tn.Type())
						}
					}
					var args []Value
					for _, a := range t.Args {
						args = append(args, env.eval(a))
					}
					if fn := eng.lookupFunc(key); fn != nil {
						for i := range args {
							if args[i].K != nil && i < fn.Signature.Params().Len() {
								args[i] = env.toType(args[i], fn.Signature.Params().At(i).Type())
							}
						}
						return env.callGo(fn, args)
					}
					if c := eng.cs.Funcs[key]; c != nil && c.Pure {
						obj := p.Scope().Lookup(sel.Sel.Name)
						if f, ok := obj.(*types.Func); ok {
							return env.pureApp(key, args, f.Type().(*types.Signature).Results())
						}
					}
					env.fail("unknown function %s", key)
				}
			}
		}
		// method call
		recv := env.eval(sel.X)
		var args []Value
		args = append(args, recv)
		for _, a := range t.Args {
			args = append(args, env.eval(a))
		}
		if recv.T == nil {
			env.fail("method call on untyped value")
		}
		if _, isIface := recv.T.Underlying().(*types.Interface); isIface {
			m, _, _ := types.LookupFieldOrMethod(recv.T, true, nil, sel.Sel.Name)
			if m == nil {
				if p := env.pkg(); p != nil {
					m, _, _ = types.LookupFieldOrMethod(recv.T, true, p, sel.Sel.Name)
				}
			}
			mf, ok := m.(*types.Func)
			if !ok {
				env.fail("no method %s on %s", sel.Sel.Name, typeKey(recv.T))
			}
			// interface value of statically known dynamic type (built by a conversion in this function):
			// call the concrete method
			if len(recv.C) == 2 && recv.C[0].IsConst() && recv.C[0].sort.K == SInt {
				if ct, ok := eng.typeByID[recv.C[0].val.Int64()]; ok && len(shapeOf(ct)) == 1 {
					if cfn := eng.lookupMethod(ct, sel.Sel.Name); cfn != nil && len(cfn.Blocks) > 0 {
						cargs := append([]Value{{T: ct, C: []*Term{recv.C[1]}}}, args[1:]...)
						return env.callGo(cfn, cargs)
					}
				}
			}
			key := ifaceMethodKey(recv.T, mf)
			c := eng.cs.Funcs[key]
			if c == nil || !c.Pure {
				env.fail("interface method %s has no pure contract", key)
			}
			msig := mf.Type().(*types.Signature)
			inames := []string{"recv"}
			for i := 0; i < msig.Params().Len(); i++ {
				n := msig.Params().At(i).Name()
				if n == "" || n == "_" {
					n = fmt.Sprintf("arg%d", i)
				}
				inames = append(inames, n)
			}
			env.ifaceNames = inames
			r := env.pureApp(key, args, msig.Results())
			env.ifaceNames = nil
			return r
		}
		fn := eng.lookupMethod(recv.T, sel.Sel.Name)
		if fn == nil {
			env.fail("no method %s on %s", sel.Sel.Name, typeKey(recv.T))
		}
		// receiver adjustment: value receiver on pointer value
		if rp := fn.Signature.Recv(); rp != nil {
			_, wantPtr := rp.Type().Underlying().(*types.Pointer)
			_, havePtr := recv.T.Underlying().(*types.Pointer)
			if !wantPtr && havePtr {
				args[0] = env.ex.load(env.st, env.ex.addrOf(recv))
			}
		}
		for i := 1; i < len(args); i++ {
			if args[i].K != nil && i-1 < fn.Signature.Params().Len() {
				args[i] = env.toType(args[i], fn.Signature.Params().At(i-1).Type())
			}
		}
		return env.callGo(fn, args)
	}
	env.fail("unsupported call %s", exprString(t))
	return Value{}
}

func (env *specEnv) pureApp(key string, args []Value, results *types.Tuple) Value {
	var flat []*Term
	for _, a := range args {
		if a.K != nil {
			a = env.toType(a, intT)
		}
		flat = append(flat, a.C...)
	}
	var rt types.Type = results
	if results.Len() == 1 {
		rt = results.At(0).Type()
	}
	sh := shapeOf(results)
	res := Value{T: rt}
	for i, s := range sh {
		if len(flat) == 0 {
			res.C = append(res.C, Var(fmt.Sprintf("fn:%s#%d", key, i), s))
		} else {
			res.C = append(res.C, App(fmt.Sprintf("fn:%s#%d", key, i), s, flat...))
		}
	}
	wellFormed(res.C, results)
	env.pureEnsures(key, args, res, results)
	return res
}

var pureFactsDone = map[int]bool{}

// pureEnsures attaches the ensures clauses of a pure contract to an application used in a spec.
func (env *specEnv) pureEnsures(key string, args []Value, res Value, results *types.Tuple) {
	c := env.ex.eng.cs.Funcs[key]
	if c == nil || len(c.Ensures) == 0 || len(res.C) == 0 || res.C[0].bound {
		return
	}
	if pureFactsDone[res.C[0].id] {
		return
	}
	pureFactsDone[res.C[0].id] = true
	var names []string
	if fn := env.ex.eng.lookupFunc(key); fn != nil {
		names = paramNames(fn)
	} else if c.IsIface {
		if env.ifaceNames != nil {
			names = env.ifaceNames
		} else {
			names = append(names, "recv")
			for i := 1; i < len(args); i++ {
				names = append(names, fmt.Sprintf("arg%d", i-1))
			}
		}
	} else if names = env.ex.eng.sigParamNames(key); names == nil {
		return
	}
	vars := map[string]Value{}
	for i, n := range names {
		if i < len(args) {
			vars[n] = args[i]
		}
	}
	bindResults(vars, res, results)
	func() {
		defer func() {
			if x := recover(); x != nil {
				if _, ok := x.(unsupported); !ok {
					panic(x)
				}
			}
		}()
		ne := &specEnv{ex: env.ex, st: env.st, old: env.st, vars: vars, pkgPath: c.PkgPath, calleeCtx: true, specDepth: env.specDepth + 1}
		for _, en := range c.Ensures {
			f := ne.evalBool(en.Expr)
			if !f.bound {
				AddFact(res.C[0], f)
			}
		}
	}()
}

// callGo: a Go function used inside a specification: pure contract → uninterpreted
// application; otherwise the body is inlined (safety obligations off) on a copy of the state.
func (env *specEnv) callGo(fn *ssa.Function, args []Value) Value {
	ex := env.ex
	key := fnKey(fn)
	results := fn.Signature.Results()
	if c := ex.eng.cs.Funcs[key]; c != nil && c.Pure && !c.Inline {
		return env.pureApp(key, args, results)
	}
	if len(fn.Blocks) == 0 {
		env.fail("function %s used in a specification has neither a pure contract nor a body", key)
	}
	if env.specDepth > 3 {
		env.fail("specification call depth exceeded at %s", key)
	}
	sub := *ex
	sub.safety = false
	sub.inSpec = true
	r := ex.root()
	nAss := len(r.assumes)
	nObl := len(r.obls)
	scratch := env.st.clone()
	savedCtx := ex.curCtx
	res := (&sub).inlineCall(scratch, fn, args, nil, token.NoPos)
	ex.curCtx = savedCtx
	r.obls = r.obls[:nObl]
	_ = nAss // assumptions made while inlining (e.g. non-nil derefs) are kept: they are guarded by pc
	if results.Len() == 1 {
		res.T = results.At(0).Type()
	}
	return res
}

func (env *specEnv) convertTo(v Value, ty types.Type) Value {
	if v.K != nil {
		return env.toType(v, ty)
	}
	sub := *env.ex
	sub.safety = false
	return (&sub).convert(env.st.clone(), v, v.T, ty, token.NoPos)
}

func (env *specEnv) callSpec(sf *SpecFunc, argExprs []ast.Expr) Value {
	eng := env.ex.eng
	var names []string
	var ptypes []types.Type
	for _, f := range sf.Params {
		ty := eng.resolveType(f.Type, sf.PkgPath)
		if ty == nil {
			env.fail("spec %s: unknown parameter type %s", sf.Name, exprString(f.Type))
		}
		for _, n := range f.Names {
			names = append(names, n.Name)
			ptypes = append(ptypes, ty)
		}
	}
	if len(argExprs) != len(names) {
		env.fail("spec %s: %d arguments expected", sf.Name, len(names))
	}
	rt := eng.resolveType(sf.Result, sf.PkgPath)
	if rt == nil {
		env.fail("spec %s: unknown result type", sf.Name)
	}
	var args []Value
	for i, a := range argExprs {
		v := env.eval(a)
		v = env.toType(v, ptypes[i])
		if len(v.C) != len(shapeOf(ptypes[i])) {
			if len(v.C) == 1 && v.C[0].IsConst() {
				v = zeroValue(ptypes[i])
			} else {
				env.fail("spec %s: argument %d has wrong shape", sf.Name, i)
			}
		}
		v.T = ptypes[i]
		args = append(args, v)
	}
	if sf.Body != nil && !sf.Rec {
		if env.specDepth > 20 {
			env.fail("spec expansion too deep in %s", sf.Name)
		}
		ne := *env
		ne.vars = map[string]Value{}
		for i, n := range names {
			ne.vars[n] = args[i]
		}
		ne.calleeCtx = true
		ne.pkgPath = sf.PkgPath
		ne.specDepth++
		v := ne.eval(sf.Body)
		v = ne.toType(v, rt)
		v.T = rt
		return v
	}
	var flat []*Term
	for _, a := range args {
		flat = append(flat, a.C...)
	}
	// heap dependence: the uninterpreted symbol is indexed by the identity of the heap
	// versions of every class the body reads
	hsfx := ""
	if sf.Body != nil {
		for _, cn := range env.specReadClasses(sf, names, args) {
			cls := eng.classes[cn]
			if cls == nil {
				continue
			}
			hsfx += fmt.Sprintf("@h%d", env.ex.heapOf(env.st, cls).id)
		}
	}
	sh := shapeOf(rt)
	res := Value{T: rt}
	for i, s := range sh {
		res.C = append(res.C, App(fmt.Sprintf("spec:%s#%d%s", sf.Name, i, hsfx), s, flat...))
	}
	return res
}

// specReadClasses: heap classes read by the body of a recursive spec function (computed once).
func (env *specEnv) specReadClasses(sf *SpecFunc, names []string, args []Value) []string {
	eng := env.ex.eng
	if cs, ok := eng.specReads[sf.Name]; ok {
		return cs
	}
	eng.specReads[sf.Name] = nil // recursion guard: nested applications see no dependence while recording
	r := env.ex.root()
	saved := r.readLog
	r.readLog = map[string]bool{}
	func() {
		defer func() {
			if x := recover(); x != nil {
				if _, ok := x.(unsupported); !ok {
					panic(x)
				}
			}
		}()
		ne := *env
		ne.vars = map[string]Value{}
		for i, n := range names {
			ne.vars[n] = args[i]
		}
		ne.calleeCtx = true
		ne.pkgPath = sf.PkgPath
		ne.specDepth++
		ne.st = env.st.clone()
		ne.eval(sf.Body)
	}()
	var out []string
	for cn := range r.readLog {
		out = append(out, cn)
	}
	sort.Strings(out)
	r.readLog = saved
	eng.specReads[sf.Name] = out
	return out
}

// unfold f(args): assume f(args) == body[args] for a recursive spec function.
func (ex *executor) applyUnfold(c *Clause, st *state) {
	env := ex.mkEnv(c, st, ex.root().entry, nil)
	ex.applyUnfoldEnv(c, env)
}

func (ex *executor) applyUnfoldEnv(c *Clause, env *specEnv) {
	env.clause = c
	call, ok := c.Expr.(*ast.CallExpr)
	if !ok {
		env.fail("unfold expects a spec function application")
	}
	id, ok := call.Fun.(*ast.Ident)
	if !ok {
		env.fail("unfold expects a spec function application")
	}
	if id.Name == "old" && len(call.Args) == 1 {
		// unfold old(f(args)): the definition of f in the entry state (locals keep their current values)
		if inner, ok := call.Args[0].(*ast.CallExpr); ok {
			if iid, ok := inner.Fun.(*ast.Ident); ok && env.old != nil {
				n := *env
				n.st = env.old
				n.preferCells = false
				if n.cur == nil {
					n.cur = env.st
				}
				cur := env.st
				env = &n
				call, id = inner, iid
				defer func(st *state) { _ = st }(cur)
				sfo := ex.eng.cs.Specs[id.Name]
				if sfo == nil || sfo.Body == nil {
					env.fail("unfold: %s is not a defined spec function", id.Name)
				}
				ex.unfoldIn(sfo, call, env, cur)
				return
			}
		}
		env.fail("unfold old(...) expects a spec function application")
	}
	sf := ex.eng.cs.Specs[id.Name]
	if sf == nil || sf.Body == nil {
		env.fail("unfold: %s is not a defined spec function", id.Name)
	}
	ex.unfoldIn(sf, call, env, env.st)
}

// unfoldIn assumes (in state `in`) that the application equals the instantiated body, both evaluated in env.
func (ex *executor) unfoldIn(sf *SpecFunc, call *ast.CallExpr, env *specEnv, in *state) {
	lhs := env.eval(call)
	// evaluate body with params bound
	var names []string
	var ptypes []types.Type
	for _, f := range sf.Params {
		ty := ex.eng.resolveType(f.Type, sf.PkgPath)
		for _, n := range f.Names {
			names = append(names, n.Name)
			ptypes = append(ptypes, ty)
		}
	}
	ne := *env
	ne.vars = map[string]Value{}
	for i, n := range names {
		v := env.eval(call.Args[i])
		v = env.toType(v, ptypes[i])
		v.T = ptypes[i]
		ne.vars[n] = v
	}
	ne.calleeCtx = true
	ne.pkgPath = sf.PkgPath
	rt := ex.eng.resolveType(sf.Result, sf.PkgPath)
	rhs := ne.toType(ne.eval(sf.Body), rt)
	ex.assume(in, valuesEq(lhs, rhs))
}

// ---------- locations ----------

type locRef struct {
	arr     *Term // backing array of an element / region location
	classes []*HeapClass
	key     []*Term
	region  func(key []*Term) *Term // nil: exact key
	addr    *Addr
	all     bool
}

func (l *locRef) covers(name string, key []*Term) *Term {
	for _, c := range l.classes {
		if c.Name == name {
			if l.region != nil {
				return l.region(key)
			}
			return keysEq(key, l.key)
		}
	}
	return False
}

func (ex *executor) evalLoc(c *Clause, env *specEnv) []*locRef {
	env.clause = c
	return env.locOf(c.Expr)
}

func (env *specEnv) addrLoc(a *Addr) *locRef {
	if a.Kind == "cell" {
		env.fail("location denotes a local variable")
	}
	lo, hi, _ := pathRange(a.Root, a.Path)
	cs := env.ex.eng.leafClasses(a.Kind, a.Root, a.Glob)
	return &locRef{classes: cs[lo:hi], key: a.keyTerms(), addr: a}
}

func (env *specEnv) locOf(e ast.Expr) []*locRef {
	ex := env.ex
	switch t := e.(type) {
	case *ast.ParenExpr:
		return env.locOf(t.X)
	case *ast.StarExpr:
		x := env.eval(t.X)
		return []*locRef{env.addrLoc(ex.addrOf(x))}
	case *ast.SelectorExpr:
		// allof(T).f
		if call, ok := t.X.(*ast.CallExpr); ok {
			if id, ok := call.Fun.(*ast.Ident); ok && id.Name == "allof" {
				ty := ex.eng.resolveType(call.Args[0], env.pkgPath)
				if ty == nil {
					env.fail("unknown type %s", exprString(call.Args[0]))
				}
				st, ok := ty.Underlying().(*types.Struct)
				if !ok {
					env.fail("allof expects a struct type")
				}
				i := findField(st, t.Sel.Name)
				if i < 0 {
					env.fail("no field %s", t.Sel.Name)
				}
				lo, hi := fieldRange(st, i)
				cs := ex.eng.leafClasses("obj", ty, "")
				return []*locRef{{classes: cs[lo:hi], region: func(key []*Term) *Term { return True }}}
			}
		}
		x := env.eval(t.X)
		if x.T == nil {
			env.fail("bad location %s", exprString(e))
		}
		if p, ok := x.T.Underlying().(*types.Pointer); ok {
			st, ok := p.Elem().Underlying().(*types.Struct)
			if !ok {
				env.fail("bad location %s", exprString(e))
			}
			fp := fieldPath(st, t.Sel.Name, 0)
			if fp == nil {
				env.fail("no field %s in %s", t.Sel.Name, typeKey(p.Elem()))
			}
			a := ex.addrOf(x)
			na := *a
			na.Path = append(append([]int{}, a.Path...), fp...)
			return []*locRef{env.addrLoc(&na)}
		}
		// field of an element location: s[i].f
		inner := env.locOf(t.X)
		if len(inner) == 1 && inner[0].addr != nil {
			a := inner[0].addr
			_, _, ty := pathRange(a.Root, a.Path)
			if st, ok := ty.Underlying().(*types.Struct); ok {
				if i := findField(st, t.Sel.Name); i >= 0 {
					na := *a
					na.Path = append(append([]int{}, a.Path...), i)
					return []*locRef{env.addrLoc(&na)}
				}
			}
		}
		env.fail("bad location %s", exprString(e))
	case *ast.IndexExpr:
		x := env.eval(t.X)
		switch u := x.T.Underlying().(type) {
		case *types.Slice:
			i := env.toInt64(env.eval(t.Index))
			a := &Addr{Kind: "elem", Base: x.C[0], Idx: BVBin("bvadd", x.C[1], i), Root: u.Elem()}
			return []*locRef{env.addrLoc(a)}
		case *types.Map:
			k := env.toType(env.eval(t.Index), u.Key())
			dom, vals, ln := ex.mapClassesFor(x.T)
			key := ex.mapKey(x.C[0], k)
			l1 := &locRef{classes: append([]*HeapClass{dom}, vals...), key: key}
			l2 := &locRef{classes: []*HeapClass{ln}, key: []*Term{x.C[0]}}
			return []*locRef{l1, l2}
		}
		env.fail("bad location %s", exprString(e))
	case *ast.SliceExpr:
		x := env.eval(t.X)
		switch u := x.T.Underlying().(type) {
		case *types.Slice:
			lo := BVI(0, 64)
			hi := x.C[2]
			if t.Low != nil {
				lo = env.toInt64(env.eval(t.Low))
			}
			if t.High != nil {
				hi = env.toInt64(env.eval(t.High))
			}
			cs := ex.eng.leafClasses("elem", u.Elem(), "")
			arr, off := x.C[0], x.C[1]
			l, h := BVBin("bvadd", off, lo), BVBin("bvadd", off, hi)
			return []*locRef{{arr: arr, classes: cs, region: func(key []*Term) *Term {
				return And(Eq(key[0], arr), BVCmp("bvsle", l, key[1]), BVCmp("bvslt", key[1], h))
			}}}
		case *types.Map:
			dom, vals, ln := ex.mapClassesFor(x.T)
			m := x.C[0]
			return []*locRef{{classes: append(append([]*HeapClass{dom}, vals...), ln), region: func(key []*Term) *Term { return Eq(key[0], m) }}}
		}
		env.fail("bad location %s", exprString(e))
	case *ast.CallExpr:
		if id, ok := t.Fun.(*ast.Ident); ok {
			// pointee(v): the object an interface value designates, when its dynamic type is a pointer type known at
			// this call site (what a decoder writes through its `interface{}` target)
			if id.Name == "pointee" && len(t.Args) == 1 {
				x := env.eval(t.Args[0])
				if len(x.C) == 2 && x.C[0].IsConst() {
					if ct, ok := ex.eng.typeByID[x.C[0].val.Int64()]; ok {
						if _, isPtr := ct.Underlying().(*types.Pointer); isPtr {
							return []*locRef{env.addrLoc(ex.addrOf(Value{T: ct, C: []*Term{x.C[1]}}))}
						}
					}
				}
				env.fail("pointee(%s): the dynamic type is not a pointer type known at the call site", exprString(t.Args[0]))
			}
			if id.Name == "elemsof" && len(t.Args) == 1 {
				// every element of every slice / array of the given slice type
				sty := ex.eng.resolveType(t.Args[0], env.pkgPath)
				if sty == nil {
					env.fail("elemsof: unknown type %s", exprString(t.Args[0]))
				}
				sl, ok := sty.Underlying().(*types.Slice)
				if !ok {
					env.fail("elemsof expects a slice type")
				}
				return []*locRef{{classes: ex.eng.leafClasses("elem", sl.Elem(), ""), region: func(key []*Term) *Term { return True }}}
			}
			if id.Name == "anymapof" && len(t.Args) == 1 {
				// every entry of every map of the given map type
				mt := ex.eng.resolveType(t.Args[0], env.pkgPath)
				if mt == nil {
					env.fail("anymapof: unknown type %s", exprString(t.Args[0]))
				}
				if _, ok := mt.Underlying().(*types.Map); !ok {
					env.fail("anymapof expects a map type")
				}
				dom, vals, ln := ex.mapClassesFor(mt)
				return []*locRef{{classes: append(append([]*HeapClass{dom}, vals...), ln), region: func(key []*Term) *Term { return True }}}
			}
			if id.Name == "anymap" && len(t.Args) == 1 {
				// every entry of every map of the argument's map type
				x := env.eval(t.Args[0])
				if _, ok := x.T.Underlying().(*types.Map); !ok {
					env.fail("anymap expects a map-typed expression")
				}
				dom, vals, ln := ex.mapClassesFor(x.T)
				return []*locRef{{classes: append(append([]*HeapClass{dom}, vals...), ln), region: func(key []*Term) *Term { return True }}}
			}
			if id.Name == "ghostall" && len(t.Args) == 1 {
				// every cell of a ghost function
				gid, ok := t.Args[0].(*ast.Ident)
				if !ok || ex.eng.cs.Ghosts[gid.Name] == nil {
					env.fail("ghostall expects the name of a ghost function")
				}
				g := ex.eng.cs.Ghosts[gid.Name]
				var sorts []Sort
				for _, f := range g.Params {
					ty := ex.eng.resolveType(f.Type, g.PkgPath)
					if ty == nil {
						env.fail("ghost %s: unknown parameter type", g.Name)
					}
					for range f.Names {
						sorts = append(sorts, shapeOf(ty)...)
					}
				}
				if len(sorts) == 0 {
					sorts = []Sort{IntSort}
				}
				rt := ex.eng.resolveType(g.Result, g.PkgPath)
				var clss []*HeapClass
				for j, srt := range shapeOf(rt) {
					clss = append(clss, ex.eng.class(fmt.Sprintf("G:%s#%d", g.Name, j), sorts, srt, false))
				}
				return []*locRef{{classes: clss, region: func(key []*Term) *Term { return True }}}
			}
			if g := ex.eng.cs.Ghosts[id.Name]; g != nil {
				clss, key := env.ghostRef(g, t.Args)
				return []*locRef{{classes: clss, key: key}}
			}
		}
		env.fail("bad location %s", exprString(e))
	case *ast.Ident:
		// a global variable
		if p := env.pkg(); p != nil {
			if obj, ok := p.Scope().Lookup(t.Name).(*types.Var); ok {
				a := &Addr{Kind: "global", Root: obj.Type(), Glob: obj.Pkg().Path() + "." + obj.Name()}
				return []*locRef{env.addrLoc(a)}
			}
		}
		env.fail("bad location %s", exprString(e))
	}
	env.fail("bad location %s", exprString(e))
	return nil
}

func (env *specEnv) ghostRef(g *GhostDecl, argExprs []ast.Expr) ([]*HeapClass, []*Term) {
	eng := env.ex.eng
	var key []*Term
	var sorts []Sort
	i := 0
	for _, f := range g.Params {
		ty := eng.resolveType(f.Type, g.PkgPath)
		if ty == nil {
			env.fail("ghost %s: unknown parameter type", g.Name)
		}
		for range f.Names {
			if i >= len(argExprs) {
				env.fail("ghost %s: too few arguments", g.Name)
			}
			v := env.toType(env.eval(argExprs[i]), ty)
			if p, ok := ty.Underlying().(*types.Pointer); ok && v.A != nil {
				_ = p
				v.C = []*Term{env.ex.addrTerm(v.A)}
			}
			key = append(key, v.C...)
			for _, c := range v.C {
				sorts = append(sorts, c.sort)
			}
			i++
		}
	}
	if len(key) == 0 {
		key = []*Term{IntC(0)}
		sorts = []Sort{IntSort}
	}
	rt := eng.resolveType(g.Result, g.PkgPath)
	if rt == nil {
		env.fail("ghost %s: unknown result type", g.Name)
	}
	sh := shapeOf(rt)
	var clss []*HeapClass
	for j, srt := range sh {
		clss = append(clss, eng.class(fmt.Sprintf("G:%s#%d", g.Name, j), sorts, srt, false))
	}
	return clss, key
}

func (ex *executor) havocLoc(st *state, l *locRef, bound *Term) {
	for _, c := range l.classes {
		if c.Name == byteClassName {
			if l.region == nil {
				ex.bumpVer(st, l.key[0])
			} else if l.arr != nil {
				ex.bumpVer(st, l.arr)
			} else {
				vc := ex.verClass()
				st.heaps[vc.Name] = ex.heapOf(st, vc).Havoc(ex.fresh("ver"), nil)
			}
		}
		h := ex.heapOf(st, c)
		if l.region != nil {
			nh := h.Havoc(ex.fresh("fr"), l.region)
			nh.bound = bound
			st.heaps[c.Name] = nh
			continue
		}
		v := FreshVar("fr."+c.Name, c.Val)
		if c.IsRef {
			AddFact(v, And(ILe(IntC(0), v), ILt(v, bound)))
		}
		st.heaps[c.Name] = h.Store(l.key, v)
	}
	// slice headers written as a whole keep their representation invariant
	if l.region == nil {
		for _, c := range l.classes {
			if g := c.SliceGroup; g != nil && c == g[0] {
				arr := ex.heapOf(st, g[0]).Read(l.key)
				off := ex.heapOf(st, g[1]).Read(l.key)
				ln := ex.heapOf(st, g[2]).Read(l.key)
				cp := ex.heapOf(st, g[3]).Read(l.key)
				sliceFacts(arr, off, ln, cp)
			}
		}
	}
}

// assignClasses: class names possibly written according to a contract's assigns clause
// (type-level evaluation on a scratch state).
func (ex *executor) assignClasses(c *Contract, callee *ssa.Function) []string {
	names := paramNames(callee)
	sig := callee.Signature
	var ptypes []types.Type
	if sig.Recv() != nil {
		ptypes = append(ptypes, sig.Recv().Type())
	}
	for i := 0; i < sig.Params().Len(); i++ {
		ptypes = append(ptypes, sig.Params().At(i).Type())
	}
	return ex.assignClassesFor(c, names, ptypes)
}

func (ex *executor) assignClassesFor(c *Contract, names []string, ptypes []types.Type) []string {
	var out []string
	func() {
		defer func() {
			if r := recover(); r != nil {
				if _, ok := r.(unsupported); ok {
					out = nil
					return
				}
				panic(r)
			}
		}()
		scratch := &state{pc: True, cells: map[*cellRef]Value{}, heaps: map[string]*Heap{}, alloc: Var("alloc.scratch", IntSort)}
		scratch.epochs = []epochAlt{{sel: True, tag: "scratch", bound: scratch.alloc}}
		vars := map[string]Value{}
		for i, n := range names {
			if i < len(ptypes) {
				vars[n] = freshValue("scr."+n, ptypes[i])
			}
		}
		env := &specEnv{ex: ex, st: scratch, old: scratch, vars: vars, pkgPath: c.PkgPath, calleeCtx: true}
		for _, a := range c.Assigns {
			for _, l := range ex.evalLoc(a, env) {
				for _, cl := range l.classes {
					out = append(out, cl.Name)
				}
			}
		}
	}()
	return out
}

// fieldPath finds field `name` in struct type st, looking through embedded structs held by
// value; it returns the index path.
func fieldPath(st *types.Struct, name string, depth int) []int {
	if i := findField(st, name); i >= 0 {
		return []int{i}
	}
	if depth > 4 {
		return nil
	}
	for j := 0; j < st.NumFields(); j++ {
		f := st.Field(j)
		if !f.Embedded() {
			continue
		}
		if inner, ok := f.Type().Underlying().(*types.Struct); ok {
			if p := fieldPath(inner, name, depth+1); p != nil {
				return append([]int{j}, p...)
			}
		}
	}
	return nil
}

// loopRangeCell: the hidden index variable of a range-over-slice loop (loaded first thing in its header).
func (ex *executor) loopRangeCell(li *loopInfo) *cellRef {
	for _, in := range li.header.Instrs {
		if u, ok := in.(*ssa.UnOp); ok && u.Op == token.MUL {
			if a, ok := u.X.(*ssa.Alloc); ok && a.Comment == "rangeindex" {
				return ex.cells[a]
			}
		}
	}
	return nil
}

func (env *specEnv) boundVar(name string, s Sort) *Term {
	if env.bctr == nil {
		return BoundVar(name, s)
	}
	*env.bctr++
	return TS.mk("bvar", fmt.Sprintf("%s#%d", name, *env.bctr), nil, s)
}
