package main

// Hash-consed first-order terms over Bool, fixed-width bit-vectors, Int
// (object identities / ghost counters) and Float64, with SMT-LIB 2 emission.

import (
	"fmt"
	"math/big"
	"sort"
	"strings"
	"crypto/sha256"
	"encoding/hex"
)

type SortKind int

const (
	SBool SortKind = iota
	SBV
	SInt
	SFP
	SReal
)

type Sort struct {
	K SortKind
	W int
}

var (
	BoolSort = Sort{SBool, 0}
	IntSort  = Sort{SInt, 0}
	FPSort   = Sort{SFP, 64}
	RealSort = Sort{SReal, 0}
)

func BV(w int) Sort { return Sort{SBV, w} }

func (s Sort) String() string {
	switch s.K {
	case SBool:
		return "Bool"
	case SBV:
		return fmt.Sprintf("(_ BitVec %d)", s.W)
	case SInt:
		return "Int"
	case SFP:
		return "(_ FloatingPoint 11 53)"
	case SReal:
		return "Real"
	}
	return "?"
}

type Term struct {
	id    int
	op    string // SMT operator, or "const", "var", "app", "bvar", "forall", "exists"
	name  string // var / uf name
	val   *big.Int
	args  []*Term
	sort  Sort
	bound bool // mentions a bound variable
	// for quantifiers: args[0..n-2] are bvars, args[n-1] body
}

type ufDecl struct {
	name string
	args []Sort
	ret  Sort
}

type TermStore struct {
	tab    map[string]*Term
	n      int
	ufs    map[string]*ufDecl
	vars   map[string]*Term
	facts  map[int][]*Term // lazily attached well-formedness facts, keyed by term id
	fresh  map[string]int
	axioms []*Term // global quantified axioms (spec function definitions etc.)
	// hooks attach well-formedness facts to applications of a symbol that were not created through
	// the heap layer (e.g. by substitution of a bound variable)
	hooks   map[string]func(*Term)
	hooked  map[int]bool
}

func NewTermStore() *TermStore {
	return &TermStore{tab: map[string]*Term{}, ufs: map[string]*ufDecl{}, vars: map[string]*Term{}, facts: map[int][]*Term{}, fresh: map[string]int{}, hooks: map[string]func(*Term){}, hooked: map[int]bool{}}
}

var TS = NewTermStore()

func (ts *TermStore) mk(op, name string, val *big.Int, sort Sort, args ...*Term) *Term {
	var sb strings.Builder
	sb.WriteString(op)
	sb.WriteByte('|')
	sb.WriteString(name)
	sb.WriteByte('|')
	if val != nil {
		sb.WriteString(val.String())
	}
	sb.WriteByte('|')
	fmt.Fprintf(&sb, "%d.%d", sort.K, sort.W)
	for _, a := range args {
		fmt.Fprintf(&sb, ",%d", a.id)
	}
	k := sb.String()
	if t, ok := ts.tab[k]; ok {
		return t
	}
	ts.n++
	t := &Term{id: ts.n, op: op, name: name, val: val, args: args, sort: sort}
	if op == "bvar" {
		t.bound = true
	}
	for _, a := range args {
		if a.bound {
			t.bound = true
		}
	}
	if op == "forall" || op == "exists" {
		// bound-ness: recompute — closed if body only mentions own bvars.
		t.bound = mentionsOtherBound(args[len(args)-1], args[:len(args)-1])
	}
	ts.tab[k] = t
	return t
}

func mentionsOtherBound(body *Term, own []*Term) bool {
	ownset := map[int]bool{}
	for _, o := range own {
		ownset[o.id] = true
	}
	seen := map[int]bool{}
	var rec func(t *Term) bool
	rec = func(t *Term) bool {
		if !t.bound || seen[t.id] {
			return false
		}
		seen[t.id] = true
		if t.op == "bvar" {
			return !ownset[t.id]
		}
		if t.op == "forall" || t.op == "exists" {
			// inner quantifier: its own bvars are fine
			inner := t.args[:len(t.args)-1]
			for _, o := range inner {
				ownset[o.id] = true
			}
			return rec(t.args[len(t.args)-1])
		}
		for _, a := range t.args {
			if rec(a) {
				return true
			}
		}
		return false
	}
	return rec(body)
}

func (ts *TermStore) Fresh(prefix string) string {
	ts.fresh[prefix]++
	return fmt.Sprintf("%s!%d", prefix, ts.fresh[prefix])
}

func Var(name string, s Sort) *Term {
	if t, ok := TS.vars[name]; ok {
		if t.sort != s {
			panic(fmt.Sprintf("var %s redeclared with different sort %v vs %v", name, t.sort, s))
		}
		return t
	}
	t := TS.mk("var", name, nil, s)
	TS.vars[name] = t
	return t
}

func FreshVar(prefix string, s Sort) *Term { return Var(TS.Fresh(prefix), s) }

func BoundVar(name string, s Sort) *Term { return TS.mk("bvar", TS.Fresh(name), nil, s) }

func App(name string, ret Sort, args ...*Term) *Term {
	d, ok := TS.ufs[name]
	if !ok {
		d = &ufDecl{name: name, ret: ret}
		for _, a := range args {
			d.args = append(d.args, a.sort)
		}
		TS.ufs[name] = d
	} else {
		if d.ret != ret || len(d.args) != len(args) {
			panic(fmt.Sprintf("uf %s used with inconsistent signature", name))
		}
		for i, a := range args {
			if d.args[i] != a.sort {
				panic(fmt.Sprintf("uf %s arg %d sort mismatch %v vs %v", name, i, d.args[i], a.sort))
			}
		}
	}
	if len(args) == 0 {
		return Var(name+"!c", ret)
	}
	return TS.mk("app", name, nil, ret, args...)
}

func AddFact(t *Term, f *Term) {
	if f.bound {
		return
	}
	TS.facts[t.id] = append(TS.facts[t.id], f)
}

// ---------- constants ----------

var True = TS.mk("const", "true", nil, BoolSort)
var False = TS.mk("const", "false", nil, BoolSort)

func BoolC(b bool) *Term {
	if b {
		return True
	}
	return False
}

func BVC(v *big.Int, w int) *Term {
	m := new(big.Int).Lsh(big.NewInt(1), uint(w))
	x := new(big.Int).Mod(v, m)
	return TS.mk("const", "", x, BV(w))
}

func BVI(v int64, w int) *Term { return BVC(big.NewInt(v), w) }

func IntC(v int64) *Term { return TS.mk("const", "", big.NewInt(v), IntSort) }

func (t *Term) IsConst() bool { return t.op == "const" }

func (t *Term) IsTrue() bool  { return t == True }
func (t *Term) IsFalse() bool { return t == False }

// signed value of a BV constant
func (t *Term) SignedVal() *big.Int {
	if t.sort.K != SBV {
		return t.val
	}
	half := new(big.Int).Lsh(big.NewInt(1), uint(t.sort.W-1))
	if t.val.Cmp(half) >= 0 {
		return new(big.Int).Sub(t.val, new(big.Int).Lsh(big.NewInt(1), uint(t.sort.W)))
	}
	return t.val
}

// ---------- boolean structure ----------

func Not(a *Term) *Term {
	if a == True {
		return False
	}
	if a == False {
		return True
	}
	if a.op == "not" {
		return a.args[0]
	}
	return TS.mk("not", "", nil, BoolSort, a)
}

func And(as ...*Term) *Term {
	var out []*Term
	seen := map[int]bool{}
	for _, a := range as {
		if a == True {
			continue
		}
		if a == False {
			return False
		}
		if a.op == "and" {
			for _, b := range a.args {
				if !seen[b.id] {
					seen[b.id] = true
					out = append(out, b)
				}
			}
			continue
		}
		if !seen[a.id] {
			seen[a.id] = true
			out = append(out, a)
		}
	}
	for _, a := range out {
		if a.op == "not" && seen[a.args[0].id] {
			return False
		}
	}
	if len(out) == 0 {
		return True
	}
	if len(out) == 1 {
		return out[0]
	}
	return TS.mk("and", "", nil, BoolSort, out...)
}

func Or(as ...*Term) *Term {
	var out []*Term
	seen := map[int]bool{}
	for _, a := range as {
		if a == False {
			continue
		}
		if a == True {
			return True
		}
		if a.op == "or" {
			for _, b := range a.args {
				if !seen[b.id] {
					seen[b.id] = true
					out = append(out, b)
				}
			}
			continue
		}
		if !seen[a.id] {
			seen[a.id] = true
			out = append(out, a)
		}
	}
	for _, a := range out {
		if a.op == "not" && seen[a.args[0].id] {
			return True
		}
	}
	if len(out) == 0 {
		return False
	}
	if len(out) == 1 {
		return out[0]
	}
	return TS.mk("or", "", nil, BoolSort, out...)
}

func Implies(a, b *Term) *Term { return Or(Not(a), b) }

func Ite(c, a, b *Term) *Term {
	if c == True {
		return a
	}
	if c == False {
		return b
	}
	if a == b {
		return a
	}
	if a.sort != b.sort {
		panic(fmt.Sprintf("ite sort mismatch %v %v", a.sort, b.sort))
	}
	if a.sort.K == SBool {
		if a == True && b == False {
			return c
		}
		if a == False && b == True {
			return Not(c)
		}
		if a == True {
			return Or(c, b)
		}
		if b == False {
			return And(c, a)
		}
		if a == False {
			return And(Not(c), b)
		}
		if b == True {
			return Or(Not(c), a)
		}
	}
	return TS.mk("ite", "", nil, a.sort, c, a, b)
}

func Eq(a, b *Term) *Term {
	if a == b {
		return True
	}
	if a.sort != b.sort {
		panic(fmt.Sprintf("eq sort mismatch %v %v (%s, %s)", a.sort, b.sort, a.Short(), b.Short()))
	}
	if a.IsConst() && b.IsConst() {
		if a.sort.K == SBool {
			return BoolC(a == b)
		}
		return BoolC(a.val.Cmp(b.val) == 0)
	}
	if a.sort.K == SBool {
		if a == True {
			return b
		}
		if b == True {
			return a
		}
		if a == False {
			return Not(b)
		}
		if b == False {
			return Not(a)
		}
	}
	if a.sort.K == SFP {
		if a.id > b.id {
			a, b = b, a
		}
		return TS.mk("fp.eq", "", nil, BoolSort, a, b)
	}
	// alloc0+i vs alloc0+j
	if a.sort.K == SInt {
		if ba, ka, ok := splitOffset(a); ok {
			if bb, kb, ok2 := splitOffset(b); ok2 && ba == bb {
				return BoolC(ka == kb)
			}
		}
	}
	if a.id > b.id {
		a, b = b, a
	}
	return TS.mk("=", "", nil, BoolSort, a, b)
}

func splitOffset(t *Term) (*Term, int64, bool) {
	if t.op == "+" && len(t.args) == 2 && t.args[1].IsConst() {
		return t.args[0], t.args[1].val.Int64(), true
	}
	if t.op == "var" {
		return t, 0, true
	}
	return nil, 0, false
}

// ---------- Int ----------

func IAdd(a, b *Term) *Term {
	if a.IsConst() && b.IsConst() {
		return TS.mk("const", "", new(big.Int).Add(a.val, b.val), IntSort)
	}
	if b.IsConst() && b.val.Sign() == 0 {
		return a
	}
	if a.IsConst() && a.val.Sign() == 0 {
		return b
	}
	if a.op == "+" && a.args[1].IsConst() && b.IsConst() {
		return IAdd(a.args[0], IAdd(a.args[1], b))
	}
	return TS.mk("+", "", nil, IntSort, a, b)
}
func ISub(a, b *Term) *Term {
	if a.IsConst() && b.IsConst() {
		return TS.mk("const", "", new(big.Int).Sub(a.val, b.val), IntSort)
	}
	return TS.mk("-", "", nil, IntSort, a, b)
}
func ILe(a, b *Term) *Term {
	if a.IsConst() && b.IsConst() {
		return BoolC(a.val.Cmp(b.val) <= 0)
	}
	if a == b {
		return True
	}
	return TS.mk("<=", "", nil, BoolSort, a, b)
}
func ILt(a, b *Term) *Term {
	if a.IsConst() && b.IsConst() {
		return BoolC(a.val.Cmp(b.val) < 0)
	}
	if a == b {
		return False
	}
	return TS.mk("<", "", nil, BoolSort, a, b)
}

// ---------- bit-vectors ----------

func bvfold(op string, a, b *Term) *Term {
	if !a.IsConst() || !b.IsConst() {
		return nil
	}
	w := a.sort.W
	x, y := a.val, b.val
	r := new(big.Int)
	switch op {
	case "bvadd":
		r.Add(x, y)
	case "bvsub":
		r.Sub(x, y)
	case "bvmul":
		r.Mul(x, y)
	case "bvand":
		r.And(x, y)
	case "bvor":
		r.Or(x, y)
	case "bvxor":
		r.Xor(x, y)
	case "bvshl":
		if y.Cmp(big.NewInt(int64(w))) >= 0 {
			r.SetInt64(0)
		} else {
			r.Lsh(x, uint(y.Int64()))
		}
	case "bvlshr":
		if y.Cmp(big.NewInt(int64(w))) >= 0 {
			r.SetInt64(0)
		} else {
			r.Rsh(x, uint(y.Int64()))
		}
	case "bvudiv":
		if y.Sign() == 0 {
			return nil
		}
		r.Div(x, y)
	case "bvurem":
		if y.Sign() == 0 {
			return nil
		}
		r.Mod(x, y)
	default:
		return nil
	}
	return BVC(r, w)
}

func BVBin(op string, a, b *Term) *Term {
	if a.sort != b.sort {
		panic(fmt.Sprintf("%s sort mismatch %v %v (%s, %s)", op, a.sort, b.sort, a.Short(), b.Short()))
	}
	if r := bvfold(op, a, b); r != nil {
		return r
	}
	if (op == "bvudiv" || op == "bvurem") && b.IsConst() && !a.bound && a.sort.W >= 16 && b.val.Sign() > 0 && new(big.Int).And(b.val, new(big.Int).Sub(b.val, big.NewInt(1))).Sign() != 0 {
		// unsigned division by a constant that is not a power of two: an uninterpreted quotient pinned down
		// exactly by  c*q <= x < c*q + c  (no divider circuit; equal dividends give equal quotients by congruence)
		w := a.sort.W
		q := App(fmt.Sprintf("udivc.%d.%s", w, b.val.String()), a.sort, a)
		max := new(big.Int).Sub(new(big.Int).Lsh(big.NewInt(1), uint(w)), big.NewInt(1))
		qmax := BVC(new(big.Int).Div(max, b.val), w)
		cq := BVBin("bvmul", q, b)
		AddFact(q, And(BVCmp("bvule", q, qmax), BVCmp("bvule", cq, a), BVCmp("bvult", BVBin("bvsub", a, cq), b)))
		if op == "bvudiv" {
			return q
		}
		return BVBin("bvsub", a, cq)
	}
	switch op {
	case "bvadd":
		if b.IsConst() && b.val.Sign() == 0 {
			return a
		}
		if a.IsConst() && a.val.Sign() == 0 {
			return b
		}
		// (x + c1) + c2
		if b.IsConst() && a.op == "bvadd" && a.args[1].IsConst() {
			return BVBin("bvadd", a.args[0], BVBin("bvadd", a.args[1], b))
		}
	case "bvsub":
		if b.IsConst() && b.val.Sign() == 0 {
			return a
		}
		if a == b {
			return BVI(0, a.sort.W)
		}
	case "bvmul":
		if b.IsConst() && b.val.Cmp(big.NewInt(1)) == 0 {
			return a
		}
		if a.IsConst() && a.val.Cmp(big.NewInt(1)) == 0 {
			return b
		}
	case "bvor", "bvxor":
		if b.IsConst() && b.val.Sign() == 0 {
			return a
		}
		if a.IsConst() && a.val.Sign() == 0 {
			return b
		}
	case "bvshl", "bvlshr", "bvashr":
		if b.IsConst() && b.val.Sign() == 0 {
			return a
		}
	}
	return TS.mk(op, "", nil, a.sort, a, b)
}

func BVNeg(a *Term) *Term {
	if a.IsConst() {
		return BVC(new(big.Int).Neg(a.val), a.sort.W)
	}
	return TS.mk("bvneg", "", nil, a.sort, a)
}
func BVNot(a *Term) *Term {
	if a.IsConst() {
		return BVC(new(big.Int).Not(a.val), a.sort.W)
	}
	return TS.mk("bvnot", "", nil, a.sort, a)
}

func BVCmp(op string, a, b *Term) *Term {
	if a.sort != b.sort {
		panic(fmt.Sprintf("%s sort mismatch %v %v (%s, %s)", op, a.sort, b.sort, a.Short(), b.Short()))
	}
	if a.IsConst() && b.IsConst() {
		var c int
		if op[2] == 's' {
			c = a.SignedVal().Cmp(b.SignedVal())
		} else {
			c = a.val.Cmp(b.val)
		}
		switch op[3:] {
		case "lt":
			return BoolC(c < 0)
		case "le":
			return BoolC(c <= 0)
		case "gt":
			return BoolC(c > 0)
		case "ge":
			return BoolC(c >= 0)
		}
	}
	if a == b {
		switch op[3:] {
		case "lt", "gt":
			return False
		default:
			return True
		}
	}
	return TS.mk(op, "", nil, BoolSort, a, b)
}

func Extract(hi, lo int, a *Term) *Term {
	if lo == 0 && hi == a.sort.W-1 {
		return a
	}
	if a.IsConst() {
		r := new(big.Int).Rsh(a.val, uint(lo))
		return BVC(r, hi-lo+1)
	}
	return TS.mk(fmt.Sprintf("(_ extract %d %d)", hi, lo), "", nil, BV(hi-lo+1), a)
}
func ZeroExt(n int, a *Term) *Term {
	if n == 0 {
		return a
	}
	if a.IsConst() {
		return BVC(a.val, a.sort.W+n)
	}
	return TS.mk(fmt.Sprintf("(_ zero_extend %d)", n), "", nil, BV(a.sort.W+n), a)
}
func SignExt(n int, a *Term) *Term {
	if n == 0 {
		return a
	}
	if a.IsConst() {
		return BVC(a.SignedVal(), a.sort.W+n)
	}
	return TS.mk(fmt.Sprintf("(_ sign_extend %d)", n), "", nil, BV(a.sort.W+n), a)
}

// Resize converts a BV to width w with zero- or sign-extension / truncation.
func Resize(a *Term, w int, signed bool) *Term {
	if a.sort.W == w {
		return a
	}
	if a.sort.W > w {
		return Extract(w-1, 0, a)
	}
	if signed {
		return SignExt(w-a.sort.W, a)
	}
	return ZeroExt(w-a.sort.W, a)
}

func Raw(op string, s Sort, args ...*Term) *Term { return TS.mk(op, "", nil, s, args...) }

func Forall(vars []*Term, body *Term) *Term {
	if body == True {
		return True
	}
	if !body.bound {
		return body
	}
	return TS.mk("forall", "", nil, BoolSort, append(append([]*Term{}, vars...), body)...)
}
func Exists(vars []*Term, body *Term) *Term {
	if body == False {
		return False
	}
	if !body.bound {
		return body
	}
	return TS.mk("exists", "", nil, BoolSort, append(append([]*Term{}, vars...), body)...)
}

// Subst replaces terms by terms (used for skolemisation / instantiation).
func Subst(t *Term, m map[int]*Term) *Term {
	memo := map[int]*Term{}
	var rec func(t *Term) *Term
	rec = func(t *Term) *Term {
		if r, ok := m[t.id]; ok {
			return r
		}
		if len(t.args) == 0 {
			return t
		}
		if r, ok := memo[t.id]; ok {
			return r
		}
		changed := false
		na := make([]*Term, len(t.args))
		for i, a := range t.args {
			na[i] = rec(a)
			if na[i] != a {
				changed = true
			}
		}
		r := t
		if changed {
			r = rebuild(t, na)
		}
		memo[t.id] = r
		return r
	}
	return rec(t)
}

func rebuild(t *Term, na []*Term) *Term {
	switch t.op {
	case "not":
		return Not(na[0])
	case "and":
		return And(na...)
	case "or":
		return Or(na...)
	case "ite":
		return Ite(na[0], na[1], na[2])
	case "=":
		return Eq(na[0], na[1])
	case "app":
		return TS.mk("app", t.name, nil, t.sort, na...)
	case "forall":
		return Forall(na[:len(na)-1], na[len(na)-1])
	case "exists":
		return Exists(na[:len(na)-1], na[len(na)-1])
	}
	if strings.HasPrefix(t.op, "bv") && len(na) == 2 {
		if t.sort.K == SBool {
			return BVCmp(t.op, na[0], na[1])
		}
		return BVBin(t.op, na[0], na[1])
	}
	return TS.mk(t.op, t.name, t.val, t.sort, na...)
}

// ---------- printing ----------

func smtName(n string) string { return "|" + n + "|" }

func (t *Term) constStr() string {
	switch t.sort.K {
	case SBool:
		return t.name
	case SBV:
		return fmt.Sprintf("(_ bv%s %d)", t.val.String(), t.sort.W)
	case SInt:
		if t.val.Sign() < 0 {
			return fmt.Sprintf("(- %s)", new(big.Int).Neg(t.val).String())
		}
		return t.val.String()
	}
	return "?"
}

// Short renders a term for diagnostics (bounded depth).
func (t *Term) Short() string { return t.render(4) }

func (t *Term) render(d int) string {
	switch t.op {
	case "const":
		if t.sort.K == SBV {
			return t.SignedVal().String()
		}
		return t.constStr()
	case "var", "bvar":
		return t.name
	}
	if d == 0 {
		return "…"
	}
	var sb strings.Builder
	sb.WriteByte('(')
	if t.op == "app" {
		sb.WriteString(t.name)
	} else {
		sb.WriteString(t.op)
	}
	for _, a := range t.args {
		sb.WriteByte(' ')
		sb.WriteString(a.render(d - 1))
	}
	sb.WriteByte(')')
	return sb.String()
}

// Query renders an SMT-LIB script asserting all of `asserts` (plus the
// transitive well-formedness facts of every sub-term, plus global axioms).
// getValues are terms whose model value is requested when sat.
type Query struct {
	Asserts   []*Term
	NBase     int // hypotheses, path condition and negated goal (what follows are instances)
	GetValues []*Term
	Axioms    []*Term
}

func (q *Query) Render(produceModels bool) (string, map[string]*Term) {
	// 1. close under facts
	seen := map[int]bool{}
	var order []*Term
	var all []*Term
	all = append(all, q.Asserts...)
	all = append(all, q.Axioms...)
	var visit func(t *Term)
	var pendingFacts []*Term
	visit = func(t *Term) {
		if seen[t.id] {
			return
		}
		seen[t.id] = true
		for _, a := range t.args {
			visit(a)
		}
		order = append(order, t)
		if t.op == "app" && !t.bound && !TS.hooked[t.id] {
			TS.hooked[t.id] = true
			if hk, ok := TS.hooks[t.name]; ok {
				hk(t)
			}
		}
		if fs, ok := TS.facts[t.id]; ok {
			pendingFacts = append(pendingFacts, fs...)
		}
	}
	for _, t := range all {
		visit(t)
	}
	for _, t := range q.GetValues {
		visit(t)
	}
	var factAsserts []*Term
	for len(pendingFacts) > 0 {
		f := pendingFacts[0]
		pendingFacts = pendingFacts[1:]
		if seen[f.id] {
			// may already be visited as sub-term, still assert
		}
		factAsserts = append(factAsserts, f)
		visit(f)
	}
	// 2. declarations
	var sb strings.Builder
	hasQuant := false
	hasFP := false
	usedUF := map[string]bool{}
	var vars []*Term
	for _, t := range order {
		switch t.op {
		case "var":
			vars = append(vars, t)
		case "app":
			usedUF[t.name] = true
		case "forall", "exists":
			hasQuant = true
		}
		if t.sort.K == SFP {
			hasFP = true
		}
	}
	_ = hasFP
	_ = hasQuant
	if produceModels {
		sb.WriteString("(set-option :produce-models true)\n")
	}
	sb.WriteString("(set-logic ALL)\n")
	sort.Slice(vars, func(i, j int) bool { return vars[i].name < vars[j].name })
	for _, v := range vars {
		fmt.Fprintf(&sb, "(declare-fun %s () %s)\n", smtName(v.name), v.sort)
	}
	var ufn []string
	for n := range usedUF {
		ufn = append(ufn, n)
	}
	sort.Strings(ufn)
	for _, n := range ufn {
		d := TS.ufs[n]
		var as []string
		for _, a := range d.args {
			as = append(as, a.String())
		}
		fmt.Fprintf(&sb, "(declare-fun %s (%s) %s)\n", smtName(n), strings.Join(as, " "), d.ret)
	}
	// 3. definitions for shared closed nodes
	refs := map[int]int{}
	for _, t := range order {
		for _, a := range t.args {
			refs[a.id]++
		}
	}
	names := map[int]string{}
	var expr func(t *Term) string
	expr = func(t *Term) string {
		if n, ok := names[t.id]; ok {
			return n
		}
		switch t.op {
		case "const":
			return t.constStr()
		case "var", "bvar":
			return smtName(t.name)
		case "forall", "exists":
			var bs []string
			for _, v := range t.args[:len(t.args)-1] {
				bs = append(bs, fmt.Sprintf("(%s %s)", smtName(v.name), v.sort))
			}
			return fmt.Sprintf("(%s (%s) %s)", t.op, strings.Join(bs, " "), expr(t.args[len(t.args)-1]))
		}
		if len(t.args) == 0 {
			return t.op
		}
		var parts []string
		if t.op == "app" {
			parts = append(parts, smtName(t.name))
		} else {
			parts = append(parts, t.op)
		}
		for _, a := range t.args {
			parts = append(parts, expr(a))
		}
		return "(" + strings.Join(parts, " ") + ")"
	}
	for _, t := range order {
		if len(t.args) == 0 || t.bound {
			continue
		}
		if refs[t.id] >= 2 || len(t.args) > 0 && exprSize(t) > 6 {
			e := expr(t)
			n := fmt.Sprintf("n%d", t.id)
			fmt.Fprintf(&sb, "(define-fun %s () %s %s)\n", n, t.sort, e)
			names[t.id] = n
		}
	}
	for _, a := range q.Axioms {
		fmt.Fprintf(&sb, "(assert %s)\n", expr(a))
	}
	for _, a := range factAsserts {
		fmt.Fprintf(&sb, "(assert %s)\n", expr(a))
	}
	for _, a := range q.Asserts {
		fmt.Fprintf(&sb, "(assert %s)\n", expr(a))
	}
	sb.WriteString("(check-sat)\n")
	gv := map[string]*Term{}
	if produceModels && len(q.GetValues) > 0 {
		var es []string
		for _, t := range q.GetValues {
			e := expr(t)
			es = append(es, e)
			gv[e] = t
		}
		fmt.Fprintf(&sb, "(get-value (%s))\n", strings.Join(es, " "))
	}
	return sb.String(), gv
}

func exprSize(t *Term) int {
	n := 1
	for _, a := range t.args {
		if len(a.args) > 0 {
			n += 3
		} else {
			n++
		}
	}
	return n
}


// ---------- structural hashing (independent of term ids) ----------

var structHashMemo = map[int]string{}

var commutativeOps = map[string]bool{"=": true, "and": true, "or": true, "+": true, "bvadd": true, "bvmul": true, "bvand": true, "bvor": true, "bvxor": true, "distinct": true}

// StructHash is a hash of the term's structure - operators, names, constants, sorts, and the facts attached to
// its sub-terms - that does not depend on term ids (argument order of commutative operators is normalised).
func (t *Term) StructHash() string {
	if h, ok := structHashMemo[t.id]; ok {
		return h
	}
	structHashMemo[t.id] = "" // cycles cannot occur in a DAG; the placeholder guards re-entry through facts
	var parts []string
	for _, a := range t.args {
		parts = append(parts, a.StructHash())
	}
	if commutativeOps[t.op] {
		sort.Strings(parts)
	}
	var fparts []string
	for _, f := range TS.facts[t.id] {
		fparts = append(fparts, f.StructHash())
	}
	sort.Strings(fparts)
	v := ""
	if t.val != nil {
		v = t.val.String()
	}
	sum := sha256.Sum256([]byte(t.op + "\x00" + t.name + "\x00" + v + "\x00" + t.sort.String() + "\x00" + strings.Join(parts, ",") + "\x00" + strings.Join(fparts, ",")))
	h := hex.EncodeToString(sum[:12])
	structHashMemo[t.id] = h
	return h
}

// baseName cuts the run-dependent counter off a fresh name ("alloc!17" -> "alloc").
func baseName(n string) string {
	if i := strings.IndexByte(n, '!'); i >= 0 {
		return n[:i]
	}
	return n
}

var coarseHashMemo = map[int]string{}

// coarseHash is StructHash with fresh names reduced to their prefix: it does not depend on how many fresh names
// were drawn before (i.e. on the functions verified earlier in the run), but does not tell two fresh names of the
// same prefix apart, and leaves attached facts out (VCHash adds them per condition). It orders the traversal of
// canonHasher, which tells fresh names apart.
func (t *Term) coarseHash() string {
	if h, ok := coarseHashMemo[t.id]; ok {
		return h
	}
	var parts []string
	for _, a := range t.args {
		parts = append(parts, a.coarseHash())
	}
	if commutativeOps[t.op] {
		sort.Strings(parts)
	}
	v := ""
	if t.val != nil {
		v = t.val.String()
	}
	sum := sha256.Sum256([]byte(t.op + "\x00" + baseName(t.name) + "\x00" + v + "\x00" + t.sort.String() + "\x00" + strings.Join(parts, ",")))
	h := hex.EncodeToString(sum[:12])
	coarseHashMemo[t.id] = h
	return h
}

// canonHasher hashes the terms of one verification condition with fresh names renumbered in order of first
// occurrence (traversal ordered by coarseHash), so the result is the same whenever the condition is the same up to
// a renaming of fresh names.
type canonHasher struct {
	num  map[string]int
	memo map[int]string
}

func newCanonHasher() *canonHasher { return &canonHasher{num: map[string]int{}, memo: map[int]string{}} }

func (c *canonHasher) name(n string) string {
	if strings.IndexByte(n, '!') < 0 {
		return n
	}
	k, ok := c.num[n]
	if !ok {
		k = len(c.num) + 1
		c.num[n] = k
	}
	return fmt.Sprintf("%s!%d", baseName(n), k)
}

func sortByCoarse(ts []*Term) []*Term {
	out := append([]*Term{}, ts...)
	sort.SliceStable(out, func(i, j int) bool { return out[i].coarseHash() < out[j].coarseHash() })
	return out
}

func (c *canonHasher) hash(t *Term) string {
	if h, ok := c.memo[t.id]; ok {
		return h
	}
	nm := c.name(t.name)
	args := t.args
	if commutativeOps[t.op] {
		args = sortByCoarse(args)
	}
	var parts []string
	for _, a := range args {
		parts = append(parts, c.hash(a))
	}
	v := ""
	if t.val != nil {
		v = t.val.String()
	}
	sum := sha256.Sum256([]byte(t.op + "\x00" + nm + "\x00" + v + "\x00" + t.sort.String() + "\x00" + strings.Join(parts, ",")))
	h := hex.EncodeToString(sum[:12])
	c.memo[t.id] = h
	return h
}

// factClosure lists the facts attached to the sub-terms of the given terms and, transitively, of those facts.
func factClosure(roots []*Term) []*Term {
	seen := map[int]bool{}
	isFact := map[int]bool{}
	var facts []*Term
	var walk func(t *Term)
	walk = func(t *Term) {
		if t == nil || seen[t.id] {
			return
		}
		seen[t.id] = true
		for _, a := range t.args {
			walk(a)
		}
		for _, f := range TS.facts[t.id] {
			if !isFact[f.id] {
				isFact[f.id] = true
				facts = append(facts, f)
			}
			walk(f)
		}
	}
	for _, r := range roots {
		walk(r)
	}
	return facts
}
