package main

import (
	"strconv"
	"regexp"
	"flag"
	"fmt"
	"os"
	"path/filepath"
	"sort"
	"strings"
	"time"
)

type funcReport struct {
	Key        string
	Props      []string
	Err        string
	Obls       []*Obligation
	Abstracted map[string]int
	Inlined    []string
	Callees    []string
	Locals     string
}

func main() {
	repo := flag.String("repo", "/repo", "repository root")
	specs := flag.String("specs", "/verif/specs", "global assumed-contract / spec directory")
	prop := flag.String("prop", "all", "property id to check (or all)")
	tier := flag.String("tier", "quick", "quick | thorough")
	out := flag.String("out", "", "evidence file to write")
	work := flag.String("work", "", "scratch directory for SMT files")
	only := flag.String("only", "", "only verify functions whose key contains this substring")
	verbose := flag.Bool("v", false, "verbose")
	baseline := flag.String("baseline", "/verif/baseline/obligations.json", "baseline obligations")
	known := flag.String("known", "/verif/known-findings.json", "known findings")
	writeBaseline := flag.Bool("write-baseline", false, "rewrite the baseline for this property from this run")
	replayDir := flag.String("replays", "/verif/replays", "replay output directory")
	seed := flag.Int("seed", 0, "seed")
	keep := flag.Bool("keep", false, "keep SMT files")
	explainF := flag.String("explain", "", "explain refuted obligations whose name contains this substring")
	dump := flag.String("dump", "", "dump SSA of functions whose key contains this substring and exit")
	flag.Parse()
	t0 := time.Now()

	cs := NewContractSet()
	if fis, err := os.ReadDir(*specs); err == nil {
		for _, fi := range fis {
			if strings.HasSuffix(fi.Name(), ".go") || strings.HasSuffix(fi.Name(), ".spec") {
				cs.ParseContractFile(filepath.Join(*specs, fi.Name()), "")
			}
		}
	}
	files := contractFiles(*repo)
	patterns := map[string]bool{}
	for _, f := range files {
		rel, _ := filepath.Rel(*repo, filepath.Dir(f))
		pkgPath := repoModule + "/" + filepath.ToSlash(rel)
		if err := cs.ParseContractFile(f, pkgPath); err != nil {
			fmt.Fprintln(os.Stderr, "error:", err)
			os.Exit(2)
		}
		patterns["./"+filepath.ToSlash(rel)] = true
	}
	if len(cs.Errors) > 0 {
		for _, e := range cs.Errors {
			fmt.Fprintln(os.Stderr, "contract error:", e)
		}
		os.Exit(2)
	}
	// restrict packages to those needed for the property
	needPkg := map[string]bool{}
	for _, c := range cs.Funcs {
		if c.PkgPath == "" || c.Trusted || c.IsIface {
			continue
		}
		if *prop == "all" || hasProp(c.Props, *prop) {
			needPkg[c.PkgPath] = true
		}
	}
	for _, l := range cs.Lemmas {
		if l.PkgPath != "" && (*prop == "all" || hasProp(l.Props, *prop)) {
			needPkg[l.PkgPath] = true
		}
	}
	// every package that carries a contract file is loaded with syntax (so that its small
	// functions can be inlined and its contracts type-checked), not only the ones under check
	if len(needPkg) > 0 {
		for _, c := range cs.Funcs {
			if c.PkgPath != "" && strings.HasPrefix(c.PkgPath, repoModule+"/") && c.File != "" && strings.HasPrefix(c.File, *repo) {
				needPkg[c.PkgPath] = true
			}
		}
	}
	var pats []string
	for p := range needPkg {
		if strings.HasPrefix(p, repoModule+"/") {
			pats = append(pats, "./"+strings.TrimPrefix(p, repoModule+"/"))
		} else {
			pats = append(pats, p)
		}
	}
	sort.Strings(pats)
	extra := readExtraLoads(*specs)
	pats = append(pats, extra...)
	if len(needPkg) == 0 {
		fmt.Fprintf(os.Stderr, "no contracts for property %s\n", *prop)
		os.Exit(2)
	}
	eng := NewEngine(*repo)
	eng.cs = cs
	eng.baseLocals = map[string]string{}
	for bk, list := range loadBaseline(*baseline) {
		if !strings.HasSuffix(bk, "#locals") {
			continue
		}
		for _, e := range list {
			if i := strings.IndexByte(e, '\t'); i > 0 {
				eng.baseLocals[e[:i]] = e[i+1:]
			}
		}
	}
	if err := eng.Load(pats); err != nil {
		fmt.Fprintln(os.Stderr, "load error:", err)
		os.Exit(2)
	}
	tLoad := time.Since(t0)
	if *dump != "" {
		for k, fn := range eng.funcs {
			if strings.Contains(k, *dump) {
				fn.WriteTo(os.Stdout)
			}
		}
		os.Exit(0)
	}

	var reports []*funcReport
	var all []*Obligation
	var keys []string
	for k := range cs.Funcs {
		keys = append(keys, k)
	}
	sort.Strings(keys)
	for _, k := range keys {
		c := cs.Funcs[k]
		if c.IsIface || (c.Trusted && !c.AtcallOnly) {
			continue
		}
		if *prop != "all" && !hasProp(c.Props, *prop) {
			continue
		}
		if *only != "" && !strings.Contains(k, *only) {
			continue
		}
		fr := &funcReport{Key: k, Props: c.Props}
		reports = append(reports, fr)
		fn := eng.lookupFunc(k)
		if fn == nil {
			fr.Err = "contract-stale: function not found"
			continue
		}
		fr.Locals = strings.Join(localSig(fn), "|")
		res := eng.verifyFunction(fn, k, c)
		if res.err != nil {
			fr.Err = res.err.Error()
			continue
		}
		// a postcondition labelled "Cnn.<name>" belongs to that property only
		if *prop != "all" {
			kept := res.obls[:0]
			for _, o := range res.obls {
				if m := propLabelRe.FindStringSubmatch(o.Name); m != nil && m[1] != *prop {
					continue
				}
				kept = append(kept, o)
			}
			res.obls = kept
		}
		fr.Obls = res.obls
		fr.Abstracted = res.abstracted
		fr.Inlined = res.inlined
		fr.Callees = res.callees
		all = append(all, res.obls...)
	}
	lemmaObls := eng.lemmaObligations(*prop)
	all = append(all, lemmaObls...)
	tGen := time.Since(t0)

	dir := *work
	if dir == "" {
		d, err := os.MkdirTemp("", "govc-")
		if err != nil {
			panic(err)
		}
		dir = d
	}
	if !*keep {
		defer os.RemoveAll(dir)
	}
	cfg := solveCfg{dir: dir, fastS: 3, fullS: 120, workers: 8}
	if *tier == "thorough" {
		cfg.fastS, cfg.fullS, cfg.confirm = 10, 300, true
	}
	if v := os.Getenv("VERIF_LIMIT_S"); v != "" {
		// self-test of load independence: an artificially small per-obligation limit
		if n, err := strconv.Atoi(v); err == nil && n > 0 {
			cfg.fullS = n
			if cfg.fastS > n {
				cfg.fastS = n
			}
		}
	}
	solveAll(all, cfg)
	tSolve := time.Since(t0)
	if *explainF != "" {
		for _, o := range all {
			if (o.Status == "refuted" || o.Status == "unknown") && !o.Cover && strings.Contains(o.Name, *explainF) {
				fmt.Printf("EXPLAIN %s\n%s", o.Name, explain(o, dir))
			}
		}
	}

	rep := &runReport{prop: *prop, tier: *tier, seed: *seed, reports: reports, lemmas: lemmaObls, all: all,
		baselineFile: *baseline, knownFile: *known, replayDir: *replayDir, evidence: *out, eng: eng,
		tLoad: tLoad.Seconds(), tGen: (tGen - tLoad).Seconds(), tSolve: (tSolve - tGen).Seconds(), t0: t0, verbose: *verbose,
		writeBaseline: *writeBaseline, smtDir: dir}
	code := rep.finish()
	if !*keep {
		os.RemoveAll(dir)
	}
	os.Exit(code)
}

var propLabelRe = regexp.MustCompile(`/post:(C[0-9][0-9])\.`)

func hasProp(ps []string, p string) bool {
	for _, x := range ps {
		if x == p {
			return true
		}
	}
	return false
}

func readExtraLoads(specDir string) []string {
	b, err := os.ReadFile(filepath.Join(specDir, "load.txt"))
	if err != nil {
		return nil
	}
	var out []string
	for _, l := range strings.Split(string(b), "\n") {
		l = strings.TrimSpace(l)
		if l != "" && !strings.HasPrefix(l, "#") {
			out = append(out, l)
		}
	}
	return out
}
