package main

// Go values as tuples of terms ("components"), laid out by Go type.

import (
	"fmt"
	"regexp"
	"go/types"
	"math/big"
	"strings"
)

type Value struct {
	T types.Type
	C []*Term
	A *Addr        // for pointer-typed values whose target is known structurally
	K *big.Int     // untyped integer constant (T == nil)
	Cl *closureVal // closure created in this function
}

// Addr is a symbolic address: a root object plus a path of struct fields.
type Addr struct {
	// Root kinds: "cell" (register-like local, Cell != nil), "obj" (object identity
	// Base of pointee type Root), "elem" (element Idx of backing array Base,
	// element type Root), "global"
	Kind string
	Cell *cellRef
	Base *Term
	Idx  *Term
	Root types.Type // type of the root object
	Path []int      // field indices from Root
	Glob string
}

type cellRef struct {
	name string
	typ  types.Type
	id   int
}

const ptrW = 64

func intWidth(b *types.Basic) (int, bool) {
	switch b.Kind() {
	case types.Int8:
		return 8, true
	case types.Uint8:
		return 8, false
	case types.Int16:
		return 16, true
	case types.Uint16:
		return 16, false
	case types.Int32:
		return 32, true
	case types.Uint32:
		return 32, false
	case types.Int64, types.Int:
		return 64, true
	case types.Uint64, types.Uint, types.Uintptr:
		return 64, false
	case types.UntypedInt, types.UntypedRune:
		return 64, true
	}
	return 0, false
}

func isInteger(t types.Type) bool {
	b, ok := t.Underlying().(*types.Basic)
	return ok && b.Info()&types.IsInteger != 0
}
func isSigned(t types.Type) bool {
	b, ok := t.Underlying().(*types.Basic)
	if !ok {
		return false
	}
	_, s := intWidth(b)
	return s
}
func isString(t types.Type) bool {
	b, ok := t.Underlying().(*types.Basic)
	return ok && b.Info()&types.IsString != 0
}
func isBool(t types.Type) bool {
	b, ok := t.Underlying().(*types.Basic)
	return ok && b.Info()&types.IsBoolean != 0
}
func isFloat(t types.Type) bool {
	b, ok := t.Underlying().(*types.Basic)
	return ok && b.Info()&types.IsFloat != 0
}
func isPointerLike(t types.Type) bool {
	switch t.Underlying().(type) {
	case *types.Pointer, *types.Map, *types.Chan, *types.Signature:
		return true
	case *types.Basic:
		return t.Underlying().(*types.Basic).Kind() == types.UnsafePointer
	}
	return false
}

var shapeMemo = map[string][]Sort{}

var aliasRe = regexp.MustCompile(`\b(byte|rune)\b`)

func typeKey(t types.Type) string {
	s := types.TypeString(t, func(p *types.Package) string { return p.Path() })
	if strings.Contains(s, "byte") || strings.Contains(s, "rune") {
		s = aliasRe.ReplaceAllStringFunc(s, func(m string) string {
			if m == "byte" {
				return "uint8"
			}
			return "int32"
		})
	}
	return s
}

func shortTypeKey(t types.Type) string {
	s := types.TypeString(t, func(p *types.Package) string { return p.Name() })
	return s
}

type unsupported struct{ msg string }

func (u unsupported) Error() string { return u.msg }

func shapeOf(t types.Type) []Sort {
	k := typeKey(t)
	if s, ok := shapeMemo[k]; ok {
		return s
	}
	var s []Sort
	switch u := t.Underlying().(type) {
	case *types.Basic:
		switch {
		case u.Info()&types.IsBoolean != 0:
			s = []Sort{BoolSort}
		case u.Info()&types.IsInteger != 0:
			w, _ := intWidth(u)
			s = []Sort{BV(w)}
		case u.Info()&types.IsFloat != 0:
			s = []Sort{FPSort}
		case u.Info()&types.IsString != 0:
			s = []Sort{IntSort}
		case u.Kind() == types.UnsafePointer:
			s = []Sort{IntSort}
		case u.Kind() == types.UntypedNil:
			s = []Sort{IntSort}
		case u.Kind() == types.Invalid:
			s = []Sort{} // blank component of a range tuple
		default:
			panic(unsupported{"type " + k})
		}
	case *types.Pointer, *types.Map, *types.Chan, *types.Signature:
		s = []Sort{IntSort}
	case *types.Slice:
		s = []Sort{IntSort, BV(64), BV(64), BV(64)}
	case *types.Interface:
		s = []Sort{IntSort, IntSort}
	case *types.Struct:
		for i := 0; i < u.NumFields(); i++ {
			s = append(s, shapeOf(u.Field(i).Type())...)
		}
		if len(s) == 0 {
			s = []Sort{}
		}
	case *types.Array:
		// arrays are value types; represented by an opaque content identity
		s = []Sort{IntSort}
	case *types.Tuple:
		for i := 0; i < u.Len(); i++ {
			s = append(s, shapeOf(u.At(i).Type())...)
		}
	case *types.TypeParam:
		panic(unsupported{"type parameter " + k})
	default:
		panic(unsupported{"type " + k})
	}
	shapeMemo[k] = s
	return s
}

// fieldRange returns the component range of field i of struct type st.
func fieldRange(st *types.Struct, i int) (int, int) {
	lo := 0
	for j := 0; j < i; j++ {
		lo += len(shapeOf(st.Field(j).Type()))
	}
	return lo, lo + len(shapeOf(st.Field(i).Type()))
}

func zeroOfSort(s Sort) *Term {
	switch s.K {
	case SBool:
		return False
	case SBV:
		return BVI(0, s.W)
	case SInt:
		return IntC(0)
	case SFP:
		return Raw("(_ +zero 11 53)", FPSort)
	}
	panic("zero")
}

func zeroValue(t types.Type) Value {
	sh := shapeOf(t)
	v := Value{T: t, C: make([]*Term, len(sh))}
	for i, s := range sh {
		v.C[i] = zeroOfSort(s)
	}
	if isString(t) {
		v.C[0] = strConst("")
	}
	return v
}

var strIDs = map[string]int64{}

// String constants get distinct negative identities; strlen is recorded as a fact.
func strConst(s string) *Term {
	id, ok := strIDs[s]
	if !ok {
		id = -int64(len(strIDs)) - 1000
		strIDs[s] = id
	}
	t := IntC(id)
	AddFact(t, Eq(App("strlen", BV(64), t), BVI(int64(len(s)), 64)))
	return t
}

func strLen(t *Term) *Term {
	l := App("strlen", BV(64), t)
	AddFact(l, And(BVCmp("bvsge", l, BVI(0, 64)), BVCmp("bvsle", l, BVI(1<<40, 64))))
	return l
}

// freshValue creates an unconstrained value of type t with well-formedness facts.
func freshValue(prefix string, t types.Type) Value {
	sh := shapeOf(t)
	v := Value{T: t, C: make([]*Term, len(sh))}
	for i, s := range sh {
		v.C[i] = FreshVar(fmt.Sprintf("%s.%d", prefix, i), s)
	}
	wellFormed(v.C, t)
	return v
}

// wellFormed attaches Go representation invariants to freshly introduced
// component terms c (laid out for type t): slice 0<=len<=cap<=2^40, off>=0.
func wellFormed(c []*Term, t types.Type) {
	switch u := t.Underlying().(type) {
	case *types.Slice:
		sliceFacts(c[0], c[1], c[2], c[3])
	case *types.Struct:
		lo := 0
		for i := 0; i < u.NumFields(); i++ {
			n := len(shapeOf(u.Field(i).Type()))
			wellFormed(c[lo:lo+n], u.Field(i).Type())
			lo += n
		}
	case *types.Tuple:
		lo := 0
		for i := 0; i < u.Len(); i++ {
			n := len(shapeOf(u.At(i).Type()))
			wellFormed(c[lo:lo+n], u.At(i).Type())
			lo += n
		}
	case *types.Interface:
		AddFact(c[0], And(ILe(IntC(0), c[0]), Implies(Eq(c[0], IntC(0)), Eq(c[1], IntC(0)))))
		AddFact(c[1], Implies(Eq(c[0], IntC(0)), Eq(c[1], IntC(0))))
	case *types.Pointer, *types.Map, *types.Chan:
		AddFact(c[0], ILe(IntC(0), c[0]))
	}
}

const maxLenBits = 40

func sliceFacts(arr, off, ln, cp *Term) {
	z := BVI(0, 64)
	f := And(BVCmp("bvsle", z, ln), BVCmp("bvsle", ln, cp), BVCmp("bvsle", cp, BVI(1<<maxLenBits, 64)),
		BVCmp("bvsle", z, off), BVCmp("bvsle", off, BVI(1<<maxLenBits, 64)), ILe(IntC(0), arr),
		// nil slice has no backing array and no capacity
		Implies(Eq(arr, IntC(0)), Eq(cp, z)))
	AddFact(ln, f)
	AddFact(cp, f)
	AddFact(off, f)
}

func (v Value) String() string {
	var ps []string
	for _, c := range v.C {
		ps = append(ps, c.Short())
	}
	return "<" + strings.Join(ps, ", ") + ">"
}

func valueIte(c *Term, a, b Value) Value {
	if len(a.C) != len(b.C) {
		panic(fmt.Sprintf("valueIte shape mismatch %v / %v", a.T, b.T))
	}
	r := Value{T: a.T, C: make([]*Term, len(a.C))}
	for i := range a.C {
		r.C[i] = Ite(c, a.C[i], b.C[i])
	}
	if a.A != nil && b.A != nil && sameAddrShape(a.A, b.A) {
		na := *a.A
		if a.A.Base != nil {
			na.Base = Ite(c, a.A.Base, b.A.Base)
		}
		if a.A.Idx != nil {
			na.Idx = Ite(c, a.A.Idx, b.A.Idx)
		}
		r.A = &na
	} else if a.A != nil || b.A != nil {
		// interior pointers merge to their opaque terms only
		r.A = nil
	}
	if a.Cl != nil && a.Cl == b.Cl {
		r.Cl = a.Cl
	}
	return r
}

func sameAddrShape(a, b *Addr) bool {
	if a.Kind != b.Kind || a.Cell != b.Cell || a.Glob != b.Glob || len(a.Path) != len(b.Path) {
		return false
	}
	if (a.Root == nil) != (b.Root == nil) || (a.Root != nil && !types.Identical(a.Root, b.Root)) {
		return false
	}
	for i := range a.Path {
		if a.Path[i] != b.Path[i] {
			return false
		}
	}
	return true
}

func valuesEq(a, b Value) *Term {
	cs := make([]*Term, len(a.C))
	for i := range a.C {
		cs[i] = Eq(a.C[i], b.C[i])
	}
	return And(cs...)
}
