package main

import (
	"os"
	"fmt"
	"strconv"
	"go/constant"
	"go/token"
	"go/types"
	"math/big"
	"strings"

	"golang.org/x/tools/go/ssa"
)

// ---------- heap classes ----------

func (eng *Engine) class(name string, key []Sort, val Sort, isRef bool) *HeapClass {
	if c, ok := eng.classes[name]; ok {
		return c
	}
	c := &HeapClass{Name: name, Key: key, Val: val, IsRef: isRef}
	eng.classes[name] = c
	return c
}

func (eng *Engine) baseHeap(cls *HeapClass, tag string, bound *Term) *Heap {
	k := cls.Name + "@" + tag
	if h, ok := eng.bases[k]; ok {
		return h
	}
	h := BaseHeap(cls, tag)
	h.bound = bound
	eng.bases[k] = h
	return h
}

// leafClasses returns the heap classes for all leaves of root type t under
// the address kind ("obj": key [ref]; "elem": key [arr, idx]; "global": key [0]).
func (eng *Engine) leafClasses(kind string, root types.Type, glob string) []*HeapClass {
	var prefix string
	var key []Sort
	switch kind {
	case "obj":
		prefix = "P:" + typeKey(root)
		key = []Sort{IntSort}
	case "elem":
		prefix = "E:" + typeKey(root)
		key = []Sort{IntSort, BV(64)}
	case "global":
		prefix = "V:" + glob
		key = []Sort{IntSort}
	}
	mk := prefix + "#*"
	if cs, ok := eng.leafCls[mk]; ok {
		return cs
	}
	sh := shapeOf(root)
	lk := leafKinds(root)
	cs := make([]*HeapClass, len(sh))
	for j, s := range sh {
		cs[j] = eng.class(fmt.Sprintf("%s#%d", prefix, j), key, s, lk[j] == leafRef)
	}
	// slice groups
	var mark func(t types.Type, lo int)
	mark = func(t types.Type, lo int) {
		switch u := t.Underlying().(type) {
		case *types.Slice:
			g := cs[lo : lo+4]
			for _, c := range g {
				c.SliceGroup = g
			}
		case *types.Struct:
			o := lo
			for i := 0; i < u.NumFields(); i++ {
				mark(u.Field(i).Type(), o)
				o += len(shapeOf(u.Field(i).Type()))
			}
		}
	}
	mark(root, 0)
	eng.leafCls[mk] = cs
	return cs
}

// pathRange computes the leaf range [lo,hi) and the type addressed by path within root.
func pathRange(root types.Type, path []int) (int, int, types.Type) {
	t := root
	lo := 0
	for _, f := range path {
		st, ok := t.Underlying().(*types.Struct)
		if !ok {
			panic(unsupported{"field path through non-struct " + typeKey(t)})
		}
		l, _ := fieldRange(st, f)
		lo += l
		t = st.Field(f).Type()
	}
	return lo, lo + len(shapeOf(t)), t
}

func (a *Addr) keyTerms() []*Term {
	switch a.Kind {
	case "obj":
		return []*Term{a.Base}
	case "elem":
		return []*Term{a.Base, a.Idx}
	case "global":
		return []*Term{IntC(0)}
	}
	panic("keyTerms on " + a.Kind)
}

func (ex *executor) load(st *state, a *Addr) Value {
	if a.Kind == "global" && len(a.Path) == 0 {
		if id, ok := ex.eng.constErr[a.Glob]; ok {
			p := IntC(id)
			AddFact(p, App("spec:plainErr#0", BoolSort, IntC(errStringTag), p))
			return Value{T: a.Root, C: []*Term{IntC(errStringTag), p}}
		}
		if c, ok := ex.eng.constGlob[a.Glob]; ok {
			return ex.constVal(c)
		}
	}
	if a.Kind == "cell" {
		v, ok := st.cells[a.Cell]
		if !ok {
			return zeroValue(a.Cell.typ)
		}
		return v
	}
	lo, hi, t := pathRange(a.Root, a.Path)
	cs := ex.eng.leafClasses(a.Kind, a.Root, a.Glob)
	key := a.keyTerms()
	v := Value{T: t, C: make([]*Term, hi-lo)}
	for j := lo; j < hi; j++ {
		v.C[j-lo] = ex.heapOf(st, cs[j]).Read(key)
	}
	// memory safety: a reference found in memory designates an object allocated before the read
	if st.alloc != nil && os.Getenv("GOVC_NOREFBOUND") == "" {
		for j, k := range leafKinds(t) {
			if k == leafRef && j < len(v.C) && v.C[j].op != "const" && !v.C[j].bound {
				AddFact(v.C[j], ILt(v.C[j], st.alloc))
			}
		}
	}
	return v
}

func (ex *executor) store(st *state, a *Addr, v Value) {
	if a.Kind == "cell" {
		st.cells[a.Cell] = v
		return
	}
	lo, hi, _ := pathRange(a.Root, a.Path)
	if hi-lo != len(v.C) {
		panic(fmt.Sprintf("store shape mismatch: %d leaves vs %d components (%v)", hi-lo, len(v.C), v.T))
	}
	cs := ex.eng.leafClasses(a.Kind, a.Root, a.Glob)
	key := a.keyTerms()
	for j := lo; j < hi; j++ {
		h := ex.heapOf(st, cs[j])
		st.heaps[cs[j].Name] = h.Store(key, v.C[j-lo])
		if cs[j].Name == byteClassName {
			ex.bumpVer(st, key[0])
		}
	}
}

// addrTerm gives an opaque Int identity to an address (for escaping interior pointers).
func (ex *executor) addrTerm(a *Addr) *Term {
	switch a.Kind {
	case "obj":
		if len(a.Path) == 0 {
			return a.Base
		}
		return App(fmt.Sprintf("fa:%s%v", typeKey(a.Root), a.Path), IntSort, a.Base)
	case "elem":
		return App(fmt.Sprintf("ea:%s%v", typeKey(a.Root), a.Path), IntSort, a.Base, a.Idx)
	case "global":
		return App(fmt.Sprintf("ga:%s%v", a.Glob, a.Path), IntSort, IntC(0))
	}
	return IntC(-1)
}

// addrOf interprets a pointer-typed value as an address.
func (ex *executor) addrOf(v Value) *Addr {
	if v.A != nil {
		return v.A
	}
	pt, ok := v.T.Underlying().(*types.Pointer)
	if !ok {
		panic(unsupported{"address of non-pointer " + typeKey(v.T)})
	}
	return &Addr{Kind: "obj", Base: v.C[0], Root: pt.Elem()}
}

// storeClasses: classes possibly written by a store through ssa address value (static approximation).
func (ex *executor) storeClasses(addr ssa.Value) []string {
	var path []int
	cur := addr
	for {
		switch t := cur.(type) {
		case *ssa.FieldAddr:
			path = append([]int{t.Field}, path...)
			cur = t.X
			continue
		case *ssa.IndexAddr:
			var root types.Type
			switch u := t.X.Type().Underlying().(type) {
			case *types.Slice:
				root = u.Elem()
			case *types.Pointer:
				root = u.Elem().Underlying().(*types.Array).Elem()
			default:
				return nil
			}
			return ex.classNames("elem", root, path, "")
		case *ssa.Global:
			return ex.classNames("global", t.Type().Underlying().(*types.Pointer).Elem(), path, globName(t))
		}
		break
	}
	pt, ok := cur.Type().Underlying().(*types.Pointer)
	if !ok {
		return nil
	}
	return ex.classNames("obj", pt.Elem(), path, "")
}

func (ex *executor) classNames(kind string, root types.Type, path []int, glob string) []string {
	lo, hi, _ := pathRange(root, path)
	cs := ex.eng.leafClasses(kind, root, glob)
	var out []string
	for j := lo; j < hi; j++ {
		out = append(out, cs[j].Name)
	}
	return out
}

func globName(g *ssa.Global) string {
	if g.Pkg != nil {
		return g.Pkg.Pkg.Path() + "." + g.Name()
	}
	return g.Name()
}

// ---------- values ----------

func (ex *executor) constVal(c *ssa.Const) Value {
	t := c.Type()
	if c.Value == nil {
		// zero value / nil
		if b, ok := t.Underlying().(*types.Basic); ok && b.Kind() == types.UntypedNil {
			return Value{T: t, C: []*Term{IntC(0)}}
		}
		return zeroValue(t)
	}
	switch {
	case isBool(t):
		return Value{T: t, C: []*Term{BoolC(constant.BoolVal(c.Value))}}
	case isInteger(t):
		w, _ := intWidth(t.Underlying().(*types.Basic))
		bi, ok := constant.Val(constant.ToInt(c.Value)).(*big.Int)
		if !ok {
			i64, _ := constant.Int64Val(constant.ToInt(c.Value))
			bi = big.NewInt(i64)
		}
		return Value{T: t, C: []*Term{BVC(bi, w)}}
	case isString(t):
		return Value{T: t, C: []*Term{strConst(constant.StringVal(c.Value))}}
	case isFloat(t):
		f, _ := constant.Float64Val(c.Value)
		return Value{T: t, C: []*Term{fpConst(f)}}
	}
	panic(unsupported{"constant of type " + typeKey(t)})
}

func fpConst(f float64) *Term {
	// exact via rational → use to_fp of a decimal; integers and simple fractions only
	s := strconv.FormatFloat(f, 'f', -1, 64)
	if !strings.Contains(s, ".") {
		s += ".0"
	}
	neg := false
	if strings.HasPrefix(s, "-") {
		neg = true
		s = s[1:]
	}
	e := fmt.Sprintf("((_ to_fp 11 53) RNE %s)", s)
	if neg {
		e = fmt.Sprintf("((_ to_fp 11 53) RNE (- %s))", s)
	}
	return Raw(e, FPSort)
}

func (ex *executor) val(v ssa.Value) Value {
	switch t := v.(type) {
	case *ssa.Const:
		return ex.constVal(t)
	case *ssa.Alloc:
		if c := ex.cells[t]; c != nil {
			return Value{T: t.Type(), C: []*Term{IntC(-1)}, A: &Addr{Kind: "cell", Cell: c}}
		}
	case *ssa.Global:
		elem := t.Type().Underlying().(*types.Pointer).Elem()
		a := &Addr{Kind: "global", Root: elem, Glob: globName(t)}
		return Value{T: t.Type(), C: []*Term{ex.addrTerm(a)}, A: a}
	case *ssa.Function:
		return Value{T: t.Type(), C: []*Term{App("fnptr:"+t.String(), IntSort, IntC(0))}}
	case *ssa.Builtin:
		return Value{T: t.Type(), C: []*Term{IntC(0)}}
	}
	if val, ok := ex.lookupEnv(v); ok {
		return val
	}
	panic(fmt.Sprintf("%s: no value for %s = %s", ex.key, v.Name(), v.String()))
}

// ---------- instruction semantics ----------

func (ex *executor) srcText(pos token.Pos, fallback string) string {
	if s := ex.eng.exprAt(pos); s != "" {
		return s
	}
	return fallback
}

func (ex *executor) newRef(st *state) *Term {
	r := st.alloc
	st.alloc = IAdd(st.alloc, IntC(1))
	return r
}

func (ex *executor) execInstr(st *state, in ssa.Instruction) {
	switch t := in.(type) {
	case *ssa.DebugRef:
	case *ssa.Alloc:
		elem := t.Type().Underlying().(*types.Pointer).Elem()
		if c := ex.cells[t]; c != nil {
			st.cells[c] = zeroValue(elem)
			return
		}
		r := ex.newRef(st)
		if at, ok := elem.Underlying().(*types.Array); ok {
			ex.zeroElems(st, r, at.Elem())
		} else {
			a := &Addr{Kind: "obj", Base: r, Root: elem}
			ex.store(st, a, zeroValue(elem))
		}
		ex.setVal(t, Value{T: t.Type(), C: []*Term{r}})
		if t.Comment != "" {
			if ex.heapLocals == nil {
				ex.heapLocals = map[string]Value{}
			}
			ex.heapLocals[t.Comment] = Value{T: t.Type(), C: []*Term{r}}
		}
	case *ssa.Store:
		av := ex.val(t.Addr)
		v := ex.val(t.Val)
		a := ex.addrOf(av)
		ex.nilCheck(st, a, t.Pos(), "store")
		ex.store(st, a, ex.coerce(v, a, t.Val.Type()))
	case *ssa.UnOp:
		ex.execUnOp(st, t)
	case *ssa.BinOp:
		x, y := ex.val(t.X), ex.val(t.Y)
		ex.setVal(t, ex.binop(st, t.Op, x, y, t.X.Type(), t.Y.Type(), t.Type(), t.Pos()))
	case *ssa.FieldAddr:
		base := ex.val(t.X)
		a := ex.addrOf(base)
		if a.Kind == "cell" {
			panic(unsupported{"field address of register cell"})
		}
		ex.nilCheck(st, a, t.Pos(), "field")
		na := *a
		na.Path = append(append([]int{}, a.Path...), t.Field)
		ex.setVal(t, Value{T: t.Type(), C: []*Term{ex.addrTerm(&na)}, A: &na})
	case *ssa.Field:
		x := ex.val(t.X)
		stt := t.X.Type().Underlying().(*types.Struct)
		lo, hi := fieldRange(stt, t.Field)
		ex.setVal(t, Value{T: t.Type(), C: x.C[lo:hi]})
	case *ssa.IndexAddr:
		ex.execIndexAddr(st, t)
	case *ssa.Index:
		ex.execIndex(st, t)
	case *ssa.Slice:
		ex.execSlice(st, t)
	case *ssa.Extract:
		tup := ex.val(t.Tuple)
		tt := t.Tuple.Type().(*types.Tuple)
		lo := 0
		for i := 0; i < t.Index; i++ {
			lo += len(shapeOf(tt.At(i).Type()))
		}
		n := len(shapeOf(tt.At(t.Index).Type()))
		ex.setVal(t, Value{T: t.Type(), C: tup.C[lo : lo+n]})
	case *ssa.Convert:
		ex.setVal(t, ex.convert(st, ex.val(t.X), t.X.Type(), t.Type(), t.Pos()))
	case *ssa.ChangeType:
		x := ex.val(t.X)
		nv := x
		nv.T = t.Type()
		if _, isPtr := t.Type().Underlying().(*types.Pointer); isPtr {
			panic(unsupported{"pointer type change"})
		}
		ex.setVal(t, nv)
	case *ssa.ChangeInterface:
		x := ex.val(t.X)
		ex.setVal(t, Value{T: t.Type(), C: x.C})
	case *ssa.MakeInterface:
		ex.execMakeInterface(st, t)
	case *ssa.TypeAssert:
		ex.execTypeAssert(st, t)
	case *ssa.MakeSlice:
		ln := Resize(ex.val(t.Len).C[0], 64, isSigned(t.Len.Type()))
		cp := Resize(ex.val(t.Cap).C[0], 64, isSigned(t.Cap.Type()))
		if ex.safety {
			ex.addObligation(st, "makeslice", "0 <= len <= cap in "+ex.srcText(t.Pos(), "make"), Implies(st.pc, And(BVCmp("bvsle", BVI(0, 64), ln), BVCmp("bvsle", ln, cp))), t.Pos())
		}
		ex.assume(st, BVCmp("bvsle", cp, BVI(1<<maxLenBits, 64)))
		arr := ex.newRef(st)
		elem := t.Type().Underlying().(*types.Slice).Elem()
		ex.zeroElems(st, arr, elem)
		ex.setVal(t, Value{T: t.Type(), C: []*Term{arr, BVI(0, 64), ln, cp}})
	case *ssa.MakeMap:
		r := ex.newRef(st)
		ex.initMap(st, r, t.Type())
		ex.setVal(t, Value{T: t.Type(), C: []*Term{r}})
	case *ssa.MakeChan:
		r := ex.newRef(st)
		ex.setVal(t, Value{T: t.Type(), C: []*Term{r}})
	case *ssa.MakeClosure:
		r := ex.newRef(st)
		cl := &closureVal{fn: t.Fn.(*ssa.Function)}
		for _, b := range t.Bindings {
			cl.bindings = append(cl.bindings, ex.val(b))
		}
		ex.setVal(t, Value{T: t.Type(), C: []*Term{r}, Cl: cl})
	case *ssa.Lookup:
		ex.execLookup(st, t)
	case *ssa.MapUpdate:
		ex.execMapUpdate(st, t)
	case *ssa.Range:
		x := ex.val(t.X)
		ex.setVal(t, Value{T: t.Type(), C: x.C[:1]})
		if _, isMap := t.X.Type().Underlying().(*types.Map); isMap {
			cls := ex.visitedClass(t)
			st.heaps[cls.Name] = &Heap{kind: hConst, id: nextHeapID(), cls: cls, val: False}
			ncls := ex.nvisitedClass(t)
			st.heaps[ncls.Name] = &Heap{kind: hConst, id: nextHeapID(), cls: ncls, val: BVI(0, 64)}
		}
	case *ssa.Next:
		ex.execNext(st, t)
	case *ssa.Call:
		ex.execCall(st, t, t.Common(), t)
	case *ssa.Defer:
		st.defers = append(st.defers, t)
	case *ssa.RunDefers:
		for i := len(st.defers) - 1; i >= 0; i-- {
			d := st.defers[i]
			ex.execCall(st, d, d.Common(), nil)
		}
		st.defers = nil
	case *ssa.Go:
		ex.execGo(st, t)
	case *ssa.Send:
		// `atcall chan:send assert ...`: an assertion that has to hold at every channel send of the function
		ex.atCallObligations(st, "chan:send", []Value{ex.val(t.Chan), ex.val(t.X)}, t.Pos())
		ex.yield(st, "channel send")
	case *ssa.Select:
		ex.yield(st, "select")
		v := freshValue("select", t.Type())
		// the chosen case index is one of the states (or -1 for the default of a non-blocking select)
		lo := int64(0)
		if !t.Blocking {
			lo = -1
		}
		ex.assume(st, And(BVCmp("bvsle", BVI(lo, 64), v.C[0]), BVCmp("bvslt", v.C[0], BVI(int64(len(t.States)), 64))))
		ex.setVal(t, v)
	case *ssa.SliceToArrayPointer:
		panic(unsupported{"slice to array pointer"})
	case *ssa.MultiConvert:
		panic(unsupported{"generic conversion"})
	default:
		panic(unsupported{fmt.Sprintf("instruction %T", in)})
	}
}

type closureVal struct {
	fn       *ssa.Function
	bindings []Value
}

// coerce adapts v for storage at address a (untyped nil etc.).
func (ex *executor) coerce(v Value, a *Addr, src types.Type) Value {
	var dst types.Type
	if a.Kind == "cell" {
		dst = a.Cell.typ
	} else {
		_, _, dst = pathRange(a.Root, a.Path)
	}
	want := len(shapeOf(dst))
	if len(v.C) == want {
		return v
	}
	if len(v.C) == 1 && v.C[0].IsConst() && v.C[0].sort.K == SInt {
		return zeroValue(dst)
	}
	panic(fmt.Sprintf("coerce: %s into %s", typeKey(src), typeKey(dst)))
}

func (ex *executor) nilCheck(st *state, a *Addr, pos token.Pos, what string) {
	r := ex.root()
	if r.contract == nil || !r.contract.CheckNil || ex.inSpec {
		if a.Kind == "obj" && a.Base != nil {
			// dereference implies non-nil on the continuing path
			ex.assume(st, Not(Eq(a.Base, IntC(0))))
		}
		return
	}
	if a.Kind != "obj" {
		return
	}
	ex.addObligation(st, "nil", ex.srcText(pos, what), Implies(st.pc, Not(Eq(a.Base, IntC(0)))), pos)
	ex.assume(st, Not(Eq(a.Base, IntC(0))))
}

func (ex *executor) zeroElems(st *state, arr *Term, elem types.Type) {
	// fresh backing array: all elements read as the zero value
	cs := ex.eng.leafClasses("elem", elem, "")
	zs := zeroValue(elem)
	for j, c := range cs {
		h := ex.heapOf(st, c)
		st.heaps[c.Name] = &Heap{kind: hZero, id: nextHeapID(), cls: c, prev: h, key: []*Term{arr}, val: zs.C[j], depth: h.depth + 1}
	}
}

func (ex *executor) execUnOp(st *state, t *ssa.UnOp) {
	x := ex.val(t.X)
	switch t.Op {
	case token.MUL:
		a := ex.addrOf(x)
		ex.nilCheck(st, a, t.Pos(), "load")
		v := ex.load(st, a)
		v.T = t.Type()
		ex.setVal(t, v)
	case token.NOT:
		ex.setVal(t, Value{T: t.Type(), C: []*Term{Not(x.C[0])}})
	case token.SUB:
		if isFloat(t.Type()) {
			ex.setVal(t, Value{T: t.Type(), C: []*Term{Raw("fp.neg", FPSort, x.C[0])}})
			return
		}
		ex.setVal(t, Value{T: t.Type(), C: []*Term{BVNeg(x.C[0])}})
	case token.XOR:
		ex.setVal(t, Value{T: t.Type(), C: []*Term{BVNot(x.C[0])}})
	case token.ARROW:
		ex.yield(st, "channel receive")
		ex.setVal(t, freshValue("recv", t.Type()))
	default:
		panic(unsupported{"unary " + t.Op.String()})
	}
}

func (ex *executor) binop(st *state, op token.Token, x, y Value, xt, yt, rt types.Type, pos token.Pos) Value {
	res := func(t *Term) Value { return Value{T: rt, C: []*Term{t}} }
	switch {
	case isBool(xt):
		switch op {
		case token.EQL:
			return res(Eq(x.C[0], y.C[0]))
		case token.NEQ:
			return res(Not(Eq(x.C[0], y.C[0])))
		case token.AND, token.LAND:
			return res(And(x.C[0], y.C[0]))
		case token.OR, token.LOR:
			return res(Or(x.C[0], y.C[0]))
		}
	case isInteger(xt):
		a, b := x.C[0], y.C[0]
		signed := isSigned(xt)
		w := a.sort.W
		switch op {
		case token.ADD:
			return res(BVBin("bvadd", a, b))
		case token.SUB:
			return res(BVBin("bvsub", a, b))
		case token.MUL:
			return res(BVBin("bvmul", a, b))
		case token.QUO, token.REM:
			if ex.safety {
				ex.addObligation(st, "div0", ex.srcText(pos, "division"), Implies(st.pc, Not(Eq(b, BVI(0, w)))), pos)
			}
			ex.assume(st, Not(Eq(b, BVI(0, w))))
			if signed {
				if op == token.QUO {
					return res(BVBin("bvsdiv", a, b))
				}
				return res(BVBin("bvsrem", a, b))
			}
			if op == token.QUO {
				return res(BVBin("bvudiv", a, b))
			}
			return res(BVBin("bvurem", a, b))
		case token.AND:
			return res(BVBin("bvand", a, b))
		case token.OR:
			return res(BVBin("bvor", a, b))
		case token.XOR:
			return res(BVBin("bvxor", a, b))
		case token.AND_NOT:
			return res(BVBin("bvand", a, BVNot(b)))
		case token.SHL, token.SHR:
			// shift count: unsigned or signed (negative panics)
			bs := isSigned(yt)
			bw := b.sort.W
			if bs {
				if ex.safety {
					ex.addObligation(st, "shift", "non-negative shift count in "+ex.srcText(pos, "shift"), Implies(st.pc, BVCmp("bvsge", b, BVI(0, bw))), pos)
				}
				ex.assume(st, BVCmp("bvsge", b, BVI(0, bw)))
			}
			// bring count to width w, saturating
			var cnt *Term
			if bw > w {
				big := BVCmp("bvuge", b, BVI(int64(w), bw))
				cnt = Ite(big, BVI(int64(w), w), Extract(w-1, 0, b))
			} else {
				cnt = ZeroExt(w-bw, b)
			}
			if op == token.SHL {
				return res(BVBin("bvshl", a, cnt))
			}
			if signed {
				return res(BVBin("bvashr", a, cnt))
			}
			return res(BVBin("bvlshr", a, cnt))
		case token.EQL:
			return res(Eq(a, b))
		case token.NEQ:
			return res(Not(Eq(a, b)))
		case token.LSS, token.LEQ, token.GTR, token.GEQ:
			p := "bvu"
			if signed {
				p = "bvs"
			}
			sfx := map[token.Token]string{token.LSS: "lt", token.LEQ: "le", token.GTR: "gt", token.GEQ: "ge"}[op]
			return res(BVCmp(p+sfx, a, b))
		}
	case isFloat(xt):
		a, b := x.C[0], y.C[0]
		switch op {
		case token.ADD:
			return res(Raw("fp.add RNE", FPSort, a, b))
		case token.SUB:
			return res(Raw("fp.sub RNE", FPSort, a, b))
		case token.MUL:
			return res(Raw("fp.mul RNE", FPSort, a, b))
		case token.QUO:
			return res(Raw("fp.div RNE", FPSort, a, b))
		case token.EQL:
			return res(Raw("fp.eq", BoolSort, a, b))
		case token.NEQ:
			return res(Not(Raw("fp.eq", BoolSort, a, b)))
		case token.LSS:
			return res(Raw("fp.lt", BoolSort, a, b))
		case token.LEQ:
			return res(Raw("fp.leq", BoolSort, a, b))
		case token.GTR:
			return res(Raw("fp.gt", BoolSort, a, b))
		case token.GEQ:
			return res(Raw("fp.geq", BoolSort, a, b))
		}
	case isString(xt):
		switch op {
		case token.EQL:
			return res(Eq(x.C[0], y.C[0]))
		case token.NEQ:
			return res(Not(Eq(x.C[0], y.C[0])))
		case token.ADD:
			r := App("strcat", IntSort, x.C[0], y.C[0])
			AddFact(r, Eq(strLen(r), BVBin("bvadd", strLen(x.C[0]), strLen(y.C[0]))))
			return res(r)
		case token.LSS, token.LEQ, token.GTR, token.GEQ:
			return res(App("strcmp"+op.String(), BoolSort, x.C[0], y.C[0]))
		}
	default:
		// pointers, interfaces, slices-vs-nil, maps, chans, structs: component-wise equality
		if op == token.EQL || op == token.NEQ {
			var e *Term
			switch xt.Underlying().(type) {
			case *types.Slice:
				// only comparison with nil is legal
				e = Eq(x.C[0], IntC(0))
				if len(x.C) == 1 {
					e = Eq(y.C[0], IntC(0))
				}
			case *types.Interface:
				isNilC := func(v Value) bool {
					for _, c := range v.C {
						if !c.IsConst() || c.val.Sign() != 0 {
							return false
						}
					}
					return true
				}
				if len(y.C) == 1 || isNilC(y) {
					e = Eq(x.C[0], IntC(0))
				} else if len(x.C) == 1 || isNilC(x) {
					e = Eq(y.C[0], IntC(0))
				} else {
					e = valuesEq(x, y)
				}
			default:
				if len(x.C) != len(y.C) {
					if len(y.C) == 1 {
						e = Eq(x.C[0], IntC(0))
					} else {
						e = Eq(y.C[0], IntC(0))
					}
				} else {
					e = valuesEq(x, y)
				}
			}
			if op == token.NEQ {
				e = Not(e)
			}
			return res(e)
		}
	}
	panic(unsupported{fmt.Sprintf("binary op %s on %s", op, typeKey(xt))})
}

func (ex *executor) convert(st *state, x Value, from, to types.Type, pos token.Pos) Value {
	switch {
	case isInteger(from) && isInteger(to):
		w, _ := intWidth(to.Underlying().(*types.Basic))
		return Value{T: to, C: []*Term{Resize(x.C[0], w, isSigned(from))}}
	case isInteger(from) && isFloat(to):
		op := "(_ to_fp_unsigned 11 53) RNE"
		if isSigned(from) {
			op = "(_ to_fp 11 53) RNE"
		}
		return Value{T: to, C: []*Term{Raw(op, FPSort, x.C[0])}}
	case isFloat(from) && isInteger(to):
		w, sg := intWidth(to.Underlying().(*types.Basic))
		if q, ok := ex.floorDivLemma(st, x.C[0], w); ok {
			return Value{T: to, C: []*Term{q}}
		}
		if q, ok := ex.exactSmallIntLemma(x.C[0], w); ok {
			return Value{T: to, C: []*Term{q}}
		}
		op := fmt.Sprintf("(_ fp.to_ubv %d) RTZ", w)
		if sg {
			op = fmt.Sprintf("(_ fp.to_sbv %d) RTZ", w)
		}
		return Value{T: to, C: []*Term{Raw(op, BV(w), x.C[0])}}
	case isFloat(from) && isFloat(to):
		return Value{T: to, C: x.C}
	case isString(to):
		// string(bytes) / string(rune): fresh string identity determined by content
		if sl, ok := from.Underlying().(*types.Slice); ok && isInteger(sl.Elem()) {
			r := ex.stringOfBytes(st, x)
			return Value{T: to, C: []*Term{r}}
		}
		if isString(from) {
			return Value{T: to, C: x.C}
		}
		r := FreshVar("str", IntSort)
		return Value{T: to, C: []*Term{r}}
	case isString(from):
		if _, ok := to.Underlying().(*types.Slice); ok {
			arr := ex.newRef(st)
			l := strLen(x.C[0])
			// content: byte i = strbyte(s, i) — recorded through a dedicated heap node
			ex.bytesOfString(st, arr, x.C[0], to)
			return Value{T: to, C: []*Term{arr, BVI(0, 64), l, l}}
		}
	case isPointerLike(from) && isPointerLike(to):
		return Value{T: to, C: x.C, A: x.A}
	}
	if types.Identical(from.Underlying(), to.Underlying()) {
		nv := x
		nv.T = to
		return nv
	}
	panic(unsupported{fmt.Sprintf("conversion %s -> %s", typeKey(from), typeKey(to))})
}

// stringOfBytes: the string value of a byte slice is an uninterpreted function
// of a content snapshot identity; equal slices in the same heap give equal strings.
func (ex *executor) stringOfBytes(st *state, x Value) *Term {
	ver := ex.heapOf(st, ex.verClass()).Read([]*Term{x.C[0]})
	r := App("strof", IntSort, x.C[0], x.C[1], x.C[2], ver)
	AddFact(r, Eq(strLen(r), x.C[2]))
	return r
}

// verClass: ghost version of a byte array; it changes whenever an element of the array is
// written, so that the string value of an untouched slice is stable across unrelated writes.
func (ex *executor) verClass() *HeapClass {
	return ex.eng.class(verClassName, []Sort{IntSort}, IntSort, false)
}

const verClassName = "E:uint8#ver"
const byteClassName = "E:uint8#0"

func (ex *executor) bumpVer(st *state, arr *Term) {
	vc := ex.verClass()
	st.heaps[vc.Name] = ex.heapOf(st, vc).Store([]*Term{arr}, FreshVar("ver", IntSort))
}


func (ex *executor) bytesOfString(st *state, arr, s *Term, to types.Type) {
	elem := to.Underlying().(*types.Slice).Elem()
	c := ex.eng.leafClasses("elem", elem, "")[0]
	h := ex.heapOf(st, c)
	st.heaps[c.Name] = &Heap{kind: hStr, id: nextHeapID(), cls: c, prev: h, key: []*Term{arr, s}, depth: h.depth + 1}
	if c.Name == byteClassName {
		// string([]byte(s)) == s as long as the fresh array is not written
		ver := ex.heapOf(st, ex.verClass()).Read([]*Term{arr})
		back := App("strof", IntSort, arr, BVI(0, 64), strLen(s), ver)
		ex.assume(st, Eq(back, s))
	}
}

func (ex *executor) execIndexAddr(st *state, t *ssa.IndexAddr) {
	x := ex.val(t.X)
	idx := Resize(ex.val(t.Index).C[0], 64, isSigned(t.Index.Type()))
	switch u := t.X.Type().Underlying().(type) {
	case *types.Slice:
		ln := x.C[2]
		ex.noteIndex(idx)
		if ex.safety {
			ex.addObligation(st, "bounds", ex.srcText(t.Pos(), "index"), Implies(st.pc, BVCmp("bvult", idx, ln)), t.Pos())
		}
		ex.assume(st, BVCmp("bvult", idx, ln))
		a := &Addr{Kind: "elem", Base: x.C[0], Idx: BVBin("bvadd", x.C[1], idx), Root: u.Elem()}
		ex.setVal(t, Value{T: t.Type(), C: []*Term{ex.addrTerm(a)}, A: a})
	case *types.Pointer:
		arrT := u.Elem().Underlying().(*types.Array)
		n := arrT.Len()
		if ex.safety {
			ex.addObligation(st, "bounds", ex.srcText(t.Pos(), "index"), Implies(st.pc, BVCmp("bvult", idx, BVI(n, 64))), t.Pos())
		}
		ex.assume(st, BVCmp("bvult", idx, BVI(n, 64)))
		base := ex.arrayBase(x)
		a := &Addr{Kind: "elem", Base: base, Idx: idx, Root: arrT.Elem()}
		ex.setVal(t, Value{T: t.Type(), C: []*Term{ex.addrTerm(a)}, A: a})
	default:
		panic(unsupported{"IndexAddr on " + typeKey(t.X.Type())})
	}
}

// arrayBase: the backing-array identity of a *[N]T pointer value.
func (ex *executor) arrayBase(x Value) *Term {
	if x.A != nil && x.A.Kind == "cell" {
		panic(unsupported{"array in register cell"})
	}
	return x.C[0]
}

func (ex *executor) execIndex(st *state, t *ssa.Index) {
	x := ex.val(t.X)
	idx := Resize(ex.val(t.Index).C[0], 64, isSigned(t.Index.Type()))
	switch u := t.X.Type().Underlying().(type) {
	case *types.Basic: // string
		ln := strLen(x.C[0])
		if ex.safety {
			ex.addObligation(st, "bounds", ex.srcText(t.Pos(), "index"), Implies(st.pc, BVCmp("bvult", idx, ln)), t.Pos())
		}
		ex.assume(st, BVCmp("bvult", idx, ln))
		ex.setVal(t, Value{T: t.Type(), C: []*Term{App("strbyte", BV(8), x.C[0], idx)}})
	case *types.Array:
		n := u.Len()
		if ex.safety {
			ex.addObligation(st, "bounds", ex.srcText(t.Pos(), "index"), Implies(st.pc, BVCmp("bvult", idx, BVI(n, 64))), t.Pos())
		}
		ex.assume(st, BVCmp("bvult", idx, BVI(n, 64)))
		// array values are opaque identities: element = function of (identity, index)
		a := &Addr{Kind: "elem", Base: x.C[0], Idx: idx, Root: u.Elem()}
		ex.setVal(t, ex.load(st, a))
	default:
		panic(unsupported{"Index on " + typeKey(t.X.Type())})
	}
}

func (ex *executor) execSlice(st *state, t *ssa.Slice) {
	x := ex.val(t.X)
	get := func(v ssa.Value) *Term {
		if v == nil {
			return nil
		}
		return Resize(ex.val(v).C[0], 64, isSigned(v.Type()))
	}
	lo, hi, mx := get(t.Low), get(t.High), get(t.Max)
	z := BVI(0, 64)
	switch u := t.X.Type().Underlying().(type) {
	case *types.Slice:
		arr, off, ln, cp := x.C[0], x.C[1], x.C[2], x.C[3]
		if lo == nil {
			lo = z
		}
		if hi == nil {
			hi = ln
		}
		limit := cp
		if mx != nil {
			limit = mx
		}
		goal := And(BVCmp("bvule", lo, hi), BVCmp("bvule", hi, limit), BVCmp("bvule", limit, cp))
		if ex.safety {
			ex.addObligation(st, "slice", ex.srcText(t.Pos(), "slice"), Implies(st.pc, goal), t.Pos())
		}
		ex.assume(st, goal)
		ex.setVal(t, Value{T: t.Type(), C: []*Term{arr, BVBin("bvadd", off, lo), BVBin("bvsub", hi, lo), BVBin("bvsub", limit, lo)}})
	case *types.Basic: // string
		ln := strLen(x.C[0])
		if lo == nil {
			lo = z
		}
		if hi == nil {
			hi = ln
		}
		goal := And(BVCmp("bvule", lo, hi), BVCmp("bvule", hi, ln))
		if ex.safety {
			ex.addObligation(st, "slice", ex.srcText(t.Pos(), "slice"), Implies(st.pc, goal), t.Pos())
		}
		ex.assume(st, goal)
		r := App("substr", IntSort, x.C[0], lo, hi)
		AddFact(r, Eq(strLen(r), BVBin("bvsub", hi, lo)))
		ex.setVal(t, Value{T: t.Type(), C: []*Term{r}})
	case *types.Pointer: // *[N]T
		arrT := u.Elem().Underlying().(*types.Array)
		n := BVI(arrT.Len(), 64)
		if lo == nil {
			lo = z
		}
		if hi == nil {
			hi = n
		}
		limit := n
		if mx != nil {
			limit = mx
		}
		goal := And(BVCmp("bvule", lo, hi), BVCmp("bvule", hi, limit), BVCmp("bvule", limit, n))
		if ex.safety {
			ex.addObligation(st, "slice", ex.srcText(t.Pos(), "slice"), Implies(st.pc, goal), t.Pos())
		}
		ex.assume(st, goal)
		base := ex.arrayBase(x)
		ex.setVal(t, Value{T: t.Type(), C: []*Term{base, lo, BVBin("bvsub", hi, lo), BVBin("bvsub", limit, lo)}})
	default:
		panic(unsupported{"Slice on " + typeKey(t.X.Type())})
	}
}

// ---------- interfaces ----------

// dynamic type tag shared by all errors.New values
const errStringTag = 999999

func (eng *Engine) typeID(t types.Type) *Term {
	k := typeKey(t)
	id, ok := eng.typeIDs[k]
	if !ok {
		id = int64(len(eng.typeIDs) + 1)
		eng.typeIDs[k] = id
		eng.typeByID[id] = t
	}
	return IntC(id)
}

func (ex *executor) execMakeInterface(st *state, t *ssa.MakeInterface) {
	x := ex.val(t.X)
	xt := t.X.Type()
	tag := ex.eng.typeID(xt)
	var payload *Term
	if len(x.C) == 1 && x.C[0].sort.K == SInt {
		payload = x.C[0]
	} else {
		// box the value
		r := ex.newRef(st)
		a := &Addr{Kind: "obj", Base: r, Root: xt}
		ex.store(st, a, x)
		payload = r
	}
	ex.setVal(t, Value{T: t.Type(), C: []*Term{tag, payload}})
}

func (ex *executor) unbox(st *state, payload *Term, t types.Type) Value {
	sh := shapeOf(t)
	if len(sh) == 1 && sh[0].K == SInt {
		return Value{T: t, C: []*Term{payload}}
	}
	return ex.load(st, &Addr{Kind: "obj", Base: payload, Root: t})
}

func (ex *executor) execTypeAssert(st *state, t *ssa.TypeAssert) {
	x := ex.val(t.X)
	at := t.AssertedType
	if _, isIface := at.Underlying().(*types.Interface); isIface {
		// interface-to-interface: dynamic type must implement; unknown → fresh ok
		ok := FreshVar("implements", BoolSort)
		if !t.CommaOk {
			if ex.safety {
				ex.addObligation(st, "typeassert", ex.srcText(t.Pos(), "type assertion"), Implies(st.pc, ok), t.Pos())
			}
			ex.setVal(t, Value{T: t.Type(), C: x.C})
			return
		}
		v := valueIte(ok, Value{T: at, C: x.C}, zeroValue(at))
		ex.setVal(t, Value{T: t.Type(), C: append(append([]*Term{}, v.C...), ok)})
		return
	}
	is := Eq(x.C[0], ex.eng.typeID(at))
	v := ex.unbox(st, x.C[1], at)
	if !t.CommaOk {
		if ex.safety {
			ex.addObligation(st, "typeassert", ex.srcText(t.Pos(), "type assertion"), Implies(st.pc, is), t.Pos())
		}
		ex.assume(st, is)
		v.T = t.Type()
		ex.setVal(t, v)
		return
	}
	r := valueIte(is, v, zeroValue(at))
	ex.setVal(t, Value{T: t.Type(), C: append(append([]*Term{}, r.C...), is)})
}

// ---------- maps ----------

func (ex *executor) mapClassesFor(mt types.Type) (dom *HeapClass, vals []*HeapClass, ln *HeapClass) {
	m := mt.Underlying().(*types.Map)
	k := "M:" + typeKey(m)
	key := append([]Sort{IntSort}, shapeOf(m.Key())...)
	dom = ex.eng.class(k+":dom", key, BoolSort, false)
	vs := shapeOf(m.Elem())
	lk := leafKinds(m.Elem())
	for j, s := range vs {
		vals = append(vals, ex.eng.class(fmt.Sprintf("%s:val#%d", k, j), key, s, lk[j] == leafRef))
	}
	ln = ex.eng.class(k+":len", []Sort{IntSort}, BV(64), false)
	if ln.OnBaseRead == nil {
		ln.OnBaseRead = func(t *Term) {
			AddFact(t, And(BVCmp("bvsge", t, BVI(0, 64)), BVCmp("bvsle", t, BVI(1<<maxLenBits, 64))))
		}
	}
	return
}

func (ex *executor) mapClasses(mt types.Type) []string {
	dom, vals, ln := ex.mapClassesFor(mt)
	out := []string{dom.Name, ln.Name}
	for _, v := range vals {
		out = append(out, v.Name)
	}
	return out
}

func (ex *executor) initMap(st *state, r *Term, mt types.Type) {
	_, _, ln := ex.mapClassesFor(mt)
	st.heaps[ln.Name] = ex.heapOf(st, ln).Store([]*Term{r}, BVI(0, 64))
	// fresh map: empty domain
	dom, _, _ := ex.mapClassesFor(mt)
	h := ex.heapOf(st, dom)
	st.heaps[dom.Name] = &Heap{kind: hZero, id: nextHeapID(), cls: dom, prev: h, key: []*Term{r}, val: False, depth: h.depth + 1}
}

func (ex *executor) mapKey(m *Term, k Value) []*Term {
	return append([]*Term{m}, k.C...)
}

func (ex *executor) mapLookup(st *state, mt types.Type, m *Term, k Value) (Value, *Term) {
	dom, vals, _ := ex.mapClassesFor(mt)
	key := ex.mapKey(m, k)
	in := ex.heapOf(st, dom).Read(key)
	elem := mt.Underlying().(*types.Map).Elem()
	v := Value{T: elem, C: make([]*Term, len(vals))}
	z := zeroValue(elem)
	for j, c := range vals {
		v.C[j] = Ite(in, ex.heapOf(st, c).Read(key), z.C[j])
	}
	return v, in
}

func (ex *executor) execLookup(st *state, t *ssa.Lookup) {
	x := ex.val(t.X)
	if isString(t.X.Type()) {
		idx := Resize(ex.val(t.Index).C[0], 64, isSigned(t.Index.Type()))
		ln := strLen(x.C[0])
		if ex.safety {
			ex.addObligation(st, "bounds", ex.srcText(t.Pos(), "index"), Implies(st.pc, BVCmp("bvult", idx, ln)), t.Pos())
		}
		ex.assume(st, BVCmp("bvult", idx, ln))
		ex.setVal(t, Value{T: t.Type(), C: []*Term{App("strbyte", BV(8), x.C[0], idx)}})
		return
	}
	k := ex.val(t.Index)
	v, in := ex.mapLookup(st, t.X.Type(), x.C[0], k)
	if t.CommaOk {
		ex.setVal(t, Value{T: t.Type(), C: append(append([]*Term{}, v.C...), in)})
	} else {
		ex.setVal(t, v)
	}
}

func (ex *executor) execMapUpdate(st *state, t *ssa.MapUpdate) {
	m := ex.val(t.Map)
	k := ex.val(t.Key)
	v := ex.val(t.Value)
	if ex.safety {
		ex.addObligation(st, "nilmap", ex.srcText(t.Pos(), "map update"), Implies(st.pc, Not(Eq(m.C[0], IntC(0)))), t.Pos())
	}
	ex.mapStore(st, t.Map.Type(), m.C[0], k, v)
}

func (ex *executor) mapStore(st *state, mt types.Type, m *Term, k Value, v Value) {
	dom, vals, ln := ex.mapClassesFor(mt)
	key := ex.mapKey(m, k)
	was := ex.heapOf(st, dom).Read(key)
	st.heaps[dom.Name] = ex.heapOf(st, dom).Store(key, True)
	elem := mt.Underlying().(*types.Map).Elem()
	if len(v.C) != len(vals) {
		v = zeroValue(elem)
	}
	for j, c := range vals {
		st.heaps[c.Name] = ex.heapOf(st, c).Store(key, v.C[j])
	}
	ol := ex.heapOf(st, ln).Read([]*Term{m})
	st.heaps[ln.Name] = ex.heapOf(st, ln).Store([]*Term{m}, Ite(was, ol, BVBin("bvadd", ol, BVI(1, 64))))
}

func (ex *executor) mapDelete(st *state, mt types.Type, m *Term, k Value) {
	dom, _, ln := ex.mapClassesFor(mt)
	key := ex.mapKey(m, k)
	was := ex.heapOf(st, dom).Read(key)
	st.heaps[dom.Name] = ex.heapOf(st, dom).Store(key, False)
	ol := ex.heapOf(st, ln).Read([]*Term{m})
	st.heaps[ln.Name] = ex.heapOf(st, ln).Store([]*Term{m}, Ite(was, BVBin("bvsub", ol, BVI(1, 64)), ol))
}

func (ex *executor) execNext(st *state, t *ssa.Next) {
	it := ex.val(t.Iter)
	rng := t.Iter.(*ssa.Range)
	tt := t.Type().(*types.Tuple)
	ok := FreshVar("next.ok", BoolSort)
	if t.IsString {
		k := freshValue("next.k", tt.At(1).Type())
		v := freshValue("next.v", tt.At(2).Type())
		ex.setVal(t, Value{T: t.Type(), C: []*Term{ok, k.C[0], v.C[0]}})
		return
	}
	mt := rng.X.Type()
	m := mt.Underlying().(*types.Map)
	k := freshValue("next.k", m.Key())
	v, in := ex.mapLookup(st, mt, it.C[0], k)
	ex.assume(st, Implies(ok, in))
	// visited-set semantics: each key is produced at most once; when the iteration ends every
	// key still in the map has been produced (the body may delete keys, not insert them)
	vcls := ex.visitedClass(rng)
	vh := ex.heapOf(st, vcls)
	ex.assume(st, Implies(ok, Not(vh.Read(k.C))))
	{
		var bvs []*Term
		for i, s := range shapeOf(m.Key()) {
			bvs = append(bvs, BoundVar(fmt.Sprintf("vk%d", i), s))
		}
		dom, _, _ := ex.mapClassesFor(mt)
		inb := ex.heapOf(st, dom).Read(append([]*Term{it.C[0]}, bvs...))
		ex.assume(st, Implies(Not(ok), Forall(bvs, Implies(inb, vh.Read(bvs)))))
	}
	st.heaps[vcls.Name] = HeapIte(ok, vh.Store(k.C, True), vh)
	// nvisited(): the number of keys produced so far; a map never holds 2^maxLenBits entries, and the
	// body may only delete keys, so fewer than that many are ever produced
	ncls := ex.nvisitedClass(rng)
	nh := ex.heapOf(st, ncls)
	nv := nh.Read(nil)
	ex.assume(st, And(BVCmp("bvsge", nv, BVI(0, 64)), Implies(ok, BVCmp("bvslt", nv, BVI(1<<maxLenBits, 64)))))
	st.heaps[ncls.Name] = HeapIte(ok, nh.Store(nil, BVBin("bvadd", nv, BVI(1, 64))), nh)
	// an empty map yields no element
	_, _, lnc := ex.mapClassesFor(mt)
	ln := ex.heapOf(st, lnc).Read([]*Term{it.C[0]})
	ex.assume(st, Implies(ok, BVCmp("bvsgt", ln, BVI(0, 64))))
	var c []*Term
	c = append(c, ok)
	if isBlankTuple(tt.At(1).Type()) {
		// blank key: no component
	} else {
		c = append(c, k.C...)
	}
	if isBlankTuple(tt.At(2).Type()) {
		// blank value: no component
	} else {
		c = append(c, v.C...)
	}
	ex.setVal(t, Value{T: t.Type(), C: c})
}

func isBlankTuple(t types.Type) bool {
	b, ok := t.(*types.Basic)
	return ok && b.Kind() == types.Invalid
}

// exactSmallIntLemma: conversions of small unsigned integers through float64 are exact (every integer below 2^53 is
// a float64, and so is the difference of two integers below 2^32), so
//   int(float64(x))                          == x                       for x of at most 32 bits, unsigned
//   int(math.Abs(float64(x)))                == x
//   int(math.Abs(float64(a) - float64(b)))   == |a - b| (as integers)   for a, b of at most 32 bits, unsigned
// (Trusted arithmetic lemma; SMT solvers do not decide the floating-point formulation in reasonable time.)
func (ex *executor) exactSmallIntLemma(f *Term, w int) (*Term, bool) {
	const conv = "(_ to_fp_unsigned 11 53) RNE"
	small := func(t *Term) (*Term, bool) {
		if t.op == conv && len(t.args) == 1 && t.args[0].sort.K == SBV && t.args[0].sort.W <= 32 {
			return t.args[0], true
		}
		return nil, false
	}
	inner := f
	isAbs := false
	if f.op == "app" && strings.HasPrefix(f.name, "fn:math.Abs#") && len(f.args) == 1 {
		inner, isAbs = f.args[0], true
	}
	if x, ok := small(inner); ok {
		ex.root().abstracted["trusted lemma: int(float64(x)) == x for unsigned x of at most 32 bits (also under math.Abs)"]++
		return Resize(x, w, false), true
	}
	if isAbs && inner.op == "fp.sub RNE" && len(inner.args) == 2 {
		a, oka := small(inner.args[0])
		b, okb := small(inner.args[1])
		if oka && okb {
			a64, b64 := Resize(a, w, false), Resize(b, w, false)
			ex.root().abstracted["trusted lemma: int(math.Abs(float64(a)-float64(b))) == |a-b| for unsigned a, b of at most 32 bits"]++
			return Ite(BVCmp("bvuge", a64, b64), BVBin("bvsub", a64, b64), BVBin("bvsub", b64, a64)), true
		}
	}
	return nil, false
}

// floorDivLemma: int(math.Floor(float64(a)/float64(b))) for unsigned 32-bit a, b with b != 0
// equals a / b.  (Trusted arithmetic lemma: the quotient of two integers below 2^32 is at
// least 1/b >= 2^-32 away from the next integer while the rounding error of the double
// division is below 2^-21/b; see DESIGN.md.)  SMT solvers do not decide the FP formulation.
func (ex *executor) floorDivLemma(st *state, f *Term, w int) (*Term, bool) {
	if f.op != "fp.roundToIntegral RTN" && f.op != "fp.roundToIntegral RTZ" {
		return nil, false
	}
	d := f.args[0]
	if d.op != "fp.div RNE" {
		return nil, false
	}
	a, b := d.args[0], d.args[1]
	if a.op != "(_ to_fp_unsigned 11 53) RNE" || b.op != "(_ to_fp_unsigned 11 53) RNE" {
		return nil, false
	}
	ai, bi := a.args[0], b.args[0]
	if ai.sort.W > 32 || bi.sort.W > 32 {
		return nil, false
	}
	ai, bi = Resize(ai, 32, false), Resize(bi, 32, false)
	ex.root().abstracted["trusted lemma: floor(float64(a)/float64(b)) == a/b for uint32 a, b != 0"]++
	q := BVBin("bvudiv", ai, bi)
	nz := Not(Eq(bi, BVI(0, 32)))
	unk := FreshVar("fpdiv0", BV(w))
	return Ite(nz, Resize(q, w, false), unk), true
}

// visitedClass: ghost set of keys already produced by a map range statement.
func (ex *executor) visitedClass(r *ssa.Range) *HeapClass {
	m := r.X.Type().Underlying().(*types.Map)
	idx := 0
	for bi, b := range r.Parent().Blocks {
		for ii, in := range b.Instrs {
			if in == ssa.Instruction(r) {
				idx = bi*1000 + ii
			}
		}
	}
	name := fmt.Sprintf("R:%s:%d:visited", fnKey(r.Parent()), idx)
	return ex.eng.class(name, shapeOf(m.Key()), BoolSort, false)
}

// nvisitedClass: ghost counter of the keys already produced by a map range statement.
func (ex *executor) nvisitedClass(r *ssa.Range) *HeapClass {
	v := ex.visitedClass(r)
	return ex.eng.class("R:"+strings.TrimPrefix(strings.TrimSuffix(v.Name, ":visited"), "R:")+":nvisited", nil, BV(64), false)
}

// yield: a point where the goroutine may block and others run. Everything except this
// goroutine's lock ghost state is havocked; the contract's `yields` conditions (rely
// conditions on shared state) are then assumed.
func (ex *executor) yield(st *state, why string) {
	keep := map[string]*Heap{}
	for _, g := range []string{"G:wheld#0", "G:rheld#0", "G:mheld#0"} {
		if cls := ex.eng.classes[g]; cls != nil {
			keep[g] = ex.heapOf(st, cls)
		}
	}
	ex.havocAll(st, why)
	for g, h := range keep {
		st.heaps[g] = h
	}
	r := ex.root()
	if r.contract != nil {
		for _, y := range r.contract.Yields {
			ex.assume(st, ex.evalBoolClause(y, st, r.entry, nil))
		}
	}
}
