package main

import (
	"bytes"
	"fmt"
	"go/ast"
	"go/printer"
	"go/token"
	"go/types"
	"os"
	"path/filepath"
	"sort"
	"strings"

	"golang.org/x/tools/go/ast/astutil"
	"golang.org/x/tools/go/packages"
	"golang.org/x/tools/go/ssa"
	"golang.org/x/tools/go/ssa/ssautil"
)

const repoModule = "github.com/LiskHQ/lisk-engine"

type Engine struct {
	repo     string
	fset     *token.FileSet
	pkgs     []*packages.Package
	pkgByPath map[string]*packages.Package
	prog     *ssa.Program
	cs       *ContractSet
	classes  map[string]*HeapClass
	bases    map[string]*Heap
	leafCls  map[string][]*HeapClass
	typeIDs  map[string]int64
	typeByID map[int64]types.Type
	// baseLocals: per function key, the named local variables (name, type) in declaration order when the baseline
	// was written - used to follow pure renames of locals that contracts mention
	baseLocals map[string]string
	funcs    map[string]*ssa.Function
	inlineLimit    int
	inlineExternal map[string]bool
	fileOf   map[string]*ast.File
	exprMemo map[token.Pos]string
	// package-level error variables initialised once with errors.New and never reassigned
	constErr map[string]int64
	heapIface *types.Interface
	// constGlob: package variables of basic type whose only store in the loaded program is a
	// constant in the package initialiser and whose address is never taken (effectively constants).
	constGlob map[string]*ssa.Const
	specReads map[string][]string
}

func NewEngine(repo string) *Engine {
	return &Engine{repo: repo, classes: map[string]*HeapClass{}, bases: map[string]*Heap{}, leafCls: map[string][]*HeapClass{},
		typeIDs: map[string]int64{}, typeByID: map[int64]types.Type{}, funcs: map[string]*ssa.Function{},
		inlineLimit: 200, inlineExternal: map[string]bool{}, fileOf: map[string]*ast.File{}, exprMemo: map[token.Pos]string{},
		pkgByPath: map[string]*packages.Package{}, constErr: map[string]int64{}, constGlob: map[string]*ssa.Const{}, specReads: map[string][]string{}}
}

// contractFiles finds all contract files under repo/pkg.
func contractFiles(repo string) []string {
	var out []string
	filepath.Walk(filepath.Join(repo, "pkg"), func(p string, info os.FileInfo, err error) error {
		if err == nil && !info.IsDir() && info.Name() == "zz_contracts_verif.go" {
			out = append(out, p)
		}
		return nil
	})
	sort.Strings(out)
	return out
}

func (eng *Engine) Load(patterns []string) error {
	cfg := &packages.Config{Mode: packages.LoadSyntax, Dir: eng.repo, BuildFlags: []string{"-tags=verif"},
		Env: append(os.Environ(), "GOFLAGS=-mod=mod", "GOPROXY=off", "GOSUMDB=off", "GOTOOLCHAIN=local")}
	pkgs, err := packages.Load(cfg, patterns...)
	if err != nil {
		return err
	}
	var errs []string
	for _, p := range pkgs {
		for _, e := range p.Errors {
			errs = append(errs, e.Error())
		}
	}
	if len(errs) > 0 {
		return fmt.Errorf("package errors:\n%s", strings.Join(errs, "\n"))
	}
	eng.pkgs = pkgs
	if len(pkgs) > 0 {
		eng.fset = pkgs[0].Fset
	}
	prog, spkgs := ssautil.Packages(pkgs, ssa.NaiveForm|ssa.GlobalDebug|ssa.InstantiateGenerics)
	eng.prog = prog
	for i, sp := range spkgs {
		if sp == nil {
			continue
		}
		sp.Build()
		eng.pkgByPath[pkgs[i].PkgPath] = pkgs[i]
		for _, f := range pkgs[i].Syntax {
			eng.fileOf[eng.fset.Position(f.Pos()).Filename] = f
		}
		for _, m := range sp.Members {
			switch t := m.(type) {
			case *ssa.Function:
				eng.funcs[fnKey(t)] = t
			case *ssa.Type:
				for _, ty := range []types.Type{t.Type(), types.NewPointer(t.Type())} {
					ms := prog.MethodSets.MethodSet(ty)
					for j := 0; j < ms.Len(); j++ {
						if fn := prog.MethodValue(ms.At(j)); fn != nil && fn.Synthetic == "" {
							eng.funcs[fnKey(fn)] = fn
						}
					}
				}
			}
		}
	}
	// closures
	var addAnon func(f *ssa.Function)
	addAnon = func(f *ssa.Function) {
		for _, a := range f.AnonFuncs {
			eng.funcs[fnKey(a)] = a
			addAnon(a)
		}
	}
	var tops []*ssa.Function
	for _, f := range eng.funcs {
		tops = append(tops, f)
	}
	for _, f := range tops {
		addAnon(f)
	}
	eng.findConstErrors()
	return nil
}

// findConstErrors: globals of type error whose only store is `errors.New(...)` in the package initialiser.
func (eng *Engine) findConstErrors() {
	type info struct {
		stores  int
		initNew bool
		initC   *ssa.Const
	}
	escaped := map[string]bool{}
	inf := map[string]*info{}
	var names []string
	for _, fn := range eng.allFunctions() {
		for _, b := range fn.Blocks {
			for _, in := range b.Instrs {
				for _, op := range in.Operands(nil) {
					if g, ok := (*op).(*ssa.Global); ok {
						switch x := in.(type) {
						case *ssa.Store:
							if x.Addr == g && x.Val != ssa.Value(g) {
								continue
							}
						case *ssa.UnOp:
							if x.Op == token.MUL {
								continue
							}
						case *ssa.DebugRef:
							continue
						}
						escaped[globName(g)] = true
					}
				}
				st, ok := in.(*ssa.Store)
				if !ok {
					continue
				}
				g, ok := st.Addr.(*ssa.Global)
				if !ok {
					continue
				}
				n := globName(g)
				i := inf[n]
				if i == nil {
					i = &info{}
					inf[n] = i
					names = append(names, n)
				}
				i.stores++
				if fn.Name() == "init" && fn.Synthetic != "" {
					if call, ok := st.Val.(*ssa.Call); ok {
						if c := call.Common().StaticCallee(); c != nil && c.String() == "errors.New" {
							i.initNew = true
						}
					}
					if c, ok := st.Val.(*ssa.Const); ok {
						if bt, ok := c.Type().Underlying().(*types.Basic); ok && bt.Info()&(types.IsInteger|types.IsBoolean) != 0 {
							i.initC = c
						}
					}
				}
			}
		}
	}
	sort.Strings(names)
	for _, n := range names {
		if i := inf[n]; i.stores == 1 && i.initNew {
			eng.constErr[n] = -int64(1000000 + len(eng.constErr))
		}
		if i := inf[n]; i.stores == 1 && i.initC != nil && !escaped[n] {
			eng.constGlob[n] = i.initC
		}
	}
}

func (eng *Engine) allFunctions() []*ssa.Function {
	var out []*ssa.Function
	seen := map[*ssa.Function]bool{}
	var add func(f *ssa.Function)
	add = func(f *ssa.Function) {
		if f == nil || seen[f] {
			return
		}
		seen[f] = true
		out = append(out, f)
		for _, a := range f.AnonFuncs {
			add(a)
		}
	}
	for _, p := range eng.pkgs {
		sp := eng.prog.Package(p.Types)
		if sp == nil {
			continue
		}
		for _, m := range sp.Members {
			if f, ok := m.(*ssa.Function); ok {
				add(f)
			}
		}
	}
	for _, f := range eng.funcs {
		add(f)
	}
	return out
}

func (eng *Engine) inRepo(fn *ssa.Function) bool {
	p := fn.Pkg
	if p == nil {
		if fn.Parent() != nil {
			return eng.inRepo(fn.Parent())
		}
		return false
	}
	return strings.HasPrefix(p.Pkg.Path(), repoModule)
}

func (eng *Engine) lookupFunc(key string) *ssa.Function { return eng.funcs[key] }

func (eng *Engine) lookupMethod(recv types.Type, name string) *ssa.Function {
	t := recv
	var pkg *types.Package
	if p, ok := t.(*types.Pointer); ok {
		if n, ok := p.Elem().(*types.Named); ok {
			pkg = n.Obj().Pkg()
		}
	} else if n, ok := t.(*types.Named); ok {
		pkg = n.Obj().Pkg()
	}
	obj, _, _ := types.LookupFieldOrMethod(t, true, pkg, name)
	f, ok := obj.(*types.Func)
	if !ok {
		return nil
	}
	return eng.prog.FuncValue(f)
}

func (eng *Engine) typesPkg(path string) *types.Package {
	if p, ok := eng.pkgByPath[path]; ok {
		return p.Types
	}
	if sp := eng.prog.ImportedPackage(path); sp != nil {
		return sp.Pkg
	}
	for _, sp := range eng.prog.AllPackages() {
		if sp.Pkg.Path() == path {
			return sp.Pkg
		}
	}
	return nil
}

func (eng *Engine) importedPkg(pkgPath, name string) *types.Package {
	if p := eng.typesPkg(pkgPath); p != nil {
		for _, imp := range p.Imports() {
			if imp.Name() == name {
				return imp
			}
		}
	}
	var cands []*types.Package
	for _, sp := range eng.prog.AllPackages() {
		if sp.Pkg.Name() == name {
			cands = append(cands, sp.Pkg)
		}
	}
	// prefer repo packages, then std
	sort.Slice(cands, func(i, j int) bool {
		ri := cands[i].Path() == name
		rj := cands[j].Path() == name
		if ri != rj {
			return ri
		}
		ri = strings.HasPrefix(cands[i].Path(), repoModule)
		rj = strings.HasPrefix(cands[j].Path(), repoModule)
		if ri != rj {
			return ri
		}
		return len(cands[i].Path()) < len(cands[j].Path())
	})
	if len(cands) > 0 {
		return cands[0]
	}
	return nil
}

func (eng *Engine) resolveType(e ast.Expr, pkgPath string) types.Type {
	switch t := e.(type) {
	case *ast.Ident:
		if obj := types.Universe.Lookup(t.Name); obj != nil {
			if tn, ok := obj.(*types.TypeName); ok {
				return tn.Type()
			}
			return nil
		}
		if p := eng.typesPkg(pkgPath); p != nil {
			if tn, ok := p.Scope().Lookup(t.Name).(*types.TypeName); ok {
				return tn.Type()
			}
		}
		return nil
	case *ast.SelectorExpr:
		id, ok := t.X.(*ast.Ident)
		if !ok {
			return nil
		}
		if p := eng.importedPkg(pkgPath, id.Name); p != nil {
			if tn, ok := p.Scope().Lookup(t.Sel.Name).(*types.TypeName); ok {
				return tn.Type()
			}
		}
		return nil
	case *ast.StarExpr:
		if x := eng.resolveType(t.X, pkgPath); x != nil {
			return types.NewPointer(x)
		}
	case *ast.ArrayType:
		if t.Len == nil {
			if x := eng.resolveType(t.Elt, pkgPath); x != nil {
				return types.NewSlice(x)
			}
		}
	case *ast.MapType:
		k := eng.resolveType(t.Key, pkgPath)
		v := eng.resolveType(t.Value, pkgPath)
		if k != nil && v != nil {
			return types.NewMap(k, v)
		}
	case *ast.ChanType:
		if el := eng.resolveType(t.Value, pkgPath); el != nil {
			dir := types.SendRecv
			if t.Dir == ast.SEND {
				dir = types.SendOnly
			} else if t.Dir == ast.RECV {
				dir = types.RecvOnly
			}
			return types.NewChan(dir, el)
		}
		return nil
	case *ast.InterfaceType:
		if t.Methods == nil || len(t.Methods.List) == 0 {
			return types.NewInterfaceType(nil, nil).Complete()
		}
	case *ast.ParenExpr:
		return eng.resolveType(t.X, pkgPath)
	}
	return nil
}

// exprAt renders the innermost expression/statement enclosing pos, whitespace-normalised.
func (eng *Engine) exprAt(pos token.Pos) string {
	if !pos.IsValid() {
		return ""
	}
	if s, ok := eng.exprMemo[pos]; ok {
		return s
	}
	p := eng.fset.Position(pos)
	f := eng.fileOf[p.Filename]
	if f == nil {
		return ""
	}
	path, _ := astutil.PathEnclosingInterval(f, pos, pos)
	var n ast.Node
	for _, x := range path {
		switch x.(type) {
		case ast.Expr:
			n = x
		}
		if n != nil {
			break
		}
	}
	if n == nil && len(path) > 0 {
		n = path[0]
	}
	if n == nil {
		return ""
	}
	var buf bytes.Buffer
	printer.Fprint(&buf, eng.fset, n)
	s := strings.Join(strings.Fields(buf.String()), " ")
	if len(s) > 80 {
		s = s[:77] + "..."
	}
	eng.exprMemo[pos] = s
	return s
}

// sigParamNames: parameter names of a function known only through export data.
func (eng *Engine) sigParamNames(key string) []string {
	pkgPath := pkgOfKey(key)
	p := eng.typesPkg(pkgPath)
	if p == nil {
		return nil
	}
	name := strings.TrimPrefix(key, pkgPath+".")
	if strings.HasPrefix(name, "(") {
		return nil
	}
	f, ok := p.Scope().Lookup(name).(*types.Func)
	if !ok {
		return nil
	}
	sig := f.Type().(*types.Signature)
	var out []string
	for i := 0; i < sig.Params().Len(); i++ {
		n := sig.Params().At(i).Name()
		if n == "" || n == "_" {
			n = fmt.Sprintf("arg%d", i)
		}
		out = append(out, n)
	}
	return out
}

// implementsHeap: t (or *t) implements container/heap.Interface.
func (eng *Engine) implementsHeap(t types.Type) bool {
	if eng.heapIface == nil {
		for _, p := range eng.prog.AllPackages() {
			if p.Pkg.Path() == "container/heap" {
				if o := p.Pkg.Scope().Lookup("Interface"); o != nil {
					if it, ok := o.Type().Underlying().(*types.Interface); ok {
						eng.heapIface = it
					}
				}
			}
		}
		if eng.heapIface == nil {
			return false
		}
	}
	if types.Implements(t, eng.heapIface) {
		return true
	}
	if _, isPtr := t.(*types.Pointer); !isPtr {
		return types.Implements(types.NewPointer(t), eng.heapIface)
	}
	return false
}


// localSig lists the named local variables (allocs with a source name) of a function in block / instruction order.
func localSig(fn *ssa.Function) []string {
	var out []string
	for _, pr := range fn.Params {
		out = append(out, pr.Name()+"\x1f"+typeKey(pr.Type()))
	}
	for _, fv := range fn.FreeVars {
		out = append(out, fv.Name()+"\x1f"+typeKey(fv.Type()))
	}
	for _, b := range fn.Blocks {
		for _, in := range b.Instrs {
			if a, ok := in.(*ssa.Alloc); ok && a.Comment != "" {
				out = append(out, a.Comment+"\x1f"+typeKey(a.Type()))
			}
		}
	}
	return out
}

// renamedLocals: when the current function has the same locals as at baseline time, position by position and type by
// type, but under other names, the old names are aliases of the new ones (a pure rename keeps a contract applicable).
func (eng *Engine) renamedLocals(key string, fn *ssa.Function) map[string]string {
	old, ok := eng.baseLocals[key]
	if !ok || old == "" {
		return nil
	}
	o := strings.Split(old, "|")
	n := localSig(fn)
	if len(o) != len(n) {
		return nil
	}
	cur := map[string]bool{}
	for _, e := range n {
		cur[strings.SplitN(e, "\x1f", 2)[0]] = true
	}
	al := map[string]string{}
	for i := range o {
		oe, ne := strings.SplitN(o[i], "\x1f", 2), strings.SplitN(n[i], "\x1f", 2)
		if len(oe) != 2 || len(ne) != 2 || oe[1] != ne[1] {
			return nil
		}
		if oe[0] != ne[0] {
			if cur[oe[0]] {
				return nil // the old name is still in use for something else: not a pure rename
			}
			al[oe[0]] = ne[0]
		}
	}
	if len(al) == 0 {
		return nil
	}
	return al
}
