package main

import (
	"encoding/json"
	"fmt"
	"os"
	"path/filepath"
	"regexp"
	"sort"
	"strings"
	"time"
)

type runReport struct {
	prop, tier    string
	seed          int
	reports       []*funcReport
	lemmas        []*Obligation
	all           []*Obligation
	baselineFile  string
	knownFile     string
	replayDir     string
	evidence      string
	eng           *Engine
	tLoad, tGen   float64
	tSolve        float64
	t0            time.Time
	verbose       bool
	writeBaseline bool
	smtDir        string
}

type knownFinding struct {
	Property   string `json:"property"`
	Obligation string `json:"obligation"`
	What       string `json:"what"`
	Defect     string `json:"defect,omitempty"`
}

type knownFile struct {
	Known []knownFinding `json:"known"`
	Fixed []string       `json:"fixed"`
}

func loadBaseline(path string) map[string][]string {
	m := map[string][]string{}
	b, err := os.ReadFile(path)
	if err != nil {
		return m
	}
	json.Unmarshal(b, &m)
	return m
}

var nonFile = regexp.MustCompile(`[^A-Za-z0-9_.-]+`)

func (r *runReport) finish() int {
	base := loadBaseline(r.baselineFile)
	baseSet := map[string]bool{}
	// contract clauses proved in the baseline, whatever the return point: a refutation of such a clause at a return
	// point the baseline did not have (an added early return) is a regression of that clause, not a new obligation
	baseClause := map[string]bool{}
	hasBase := false
	if names, ok := base[r.prop]; ok {
		hasBase = true
		for _, n := range names {
			baseSet[n] = true
			baseClause[stripReturn(n)] = true
		}
	}
	// structural hashes of the verification conditions proved when the baseline was written
	vcBase := map[string]string{}
	for _, e := range base[r.prop+"#vc"] {
		if i := strings.IndexByte(e, '\t'); i > 0 {
			vcBase[e[:i]] = e[i+1:]
		}
	}
	vcNow := map[string]string{}
	var kf knownFile
	if b, err := os.ReadFile(r.knownFile); err == nil {
		json.Unmarshal(b, &kf)
	}
	knownSet := map[string]knownFinding{}
	for _, k := range kf.Known {
		if k.Property == r.prop {
			knownSet[stripReturn(k.Obligation)] = k
		}
	}

	var violations, undecided, knownHits, coverLost, toolErrors []string
	nClaimed, nDischarged := 0, 0
	bySolver := map[string]int{}
	solverTime := 0.0
	seen := map[string]bool{}
	var proved []string
	type sample struct {
		Obligation string  `json:"obligation"`
		Kind       string  `json:"kind"`
		Status     string  `json:"status"`
		Solver     string  `json:"solver"`
		Secs       float64 `json:"secs"`
	}
	var samples []sample
	os.RemoveAll(filepath.Join(r.replayDir, r.prop))
	os.MkdirAll(filepath.Join(r.replayDir, r.prop), 0o755)
	var vcDump *os.File
	if p := os.Getenv("VERIF_DUMP_VC"); p != "" {
		vcDump, _ = os.Create(p)
		defer vcDump.Close()
	}
	for _, o := range r.all {
		if r.verbose {
			fmt.Printf("  [%s] %s (%s %.2fs)\n", o.Status, o.Name, o.Solver, o.Time)
		}
		if vcDump != nil && !o.Cover {
			fmt.Fprintf(vcDump, "%s\t%s\n", o.Name, o.VCHash())
			if m := os.Getenv("VERIF_DUMP_VC_TERMS"); m != "" && o.Name == m {
				fmt.Fprintf(vcDump, "GOAL %s\n", o.Goal.render(40))
				if o.PC != nil {
					fmt.Fprintf(vcDump, "PC %s\n", o.PC.render(40))
				}
				for _, f := range sortByCoarse(factClosure(append(append([]*Term{o.Goal, o.PC}, o.Parts...), o.Hyps...))) {
					fmt.Fprintf(vcDump, "FACT %s %s\n", f.coarseHash(), f.render(40))
				}
				for _, h := range sortByCoarse(o.Hyps) {
					fmt.Fprintf(vcDump, "HYP %s %s\n", h.coarseHash(), h.render(40))
				}
			}
		}
		seen[o.Name] = true
		solverTime += o.Time
		if o.Cover {
			switch o.Status {
			case "refuted":
				if strings.Contains(o.Name, "requires-satisfiable") {
					toolErrors = append(toolErrors, "vacuous precondition: "+o.Name)
				} else {
					coverLost = append(coverLost, o.Name)
					if r.verbose {
						fmt.Printf("  unreachable: %s at %s\n", o.Name, o.Pos)
					}
				}
			case "unknown":
				// reachability undetermined: not counted
			}
			continue
		}
		switch o.Status {
		case "proved":
			nClaimed++
			nDischarged++
			bySolver[o.Solver]++
			proved = append(proved, o.Name)
			if r.writeBaseline {
				vcNow[o.Name] = o.VCHash()
			}
			if len(samples) < 12 || (o.Kind == "post" && len(samples) < 40) {
				samples = append(samples, sample{o.Name, o.Kind, "discharged", o.Solver, round3(o.Time)})
			}
		case "refuted":
			if k, ok := knownSet[stripReturn(o.Name)]; ok {
				knownHits = append(knownHits, fmt.Sprintf("KNOWN-FINDING: property=%s %s — %s", r.prop, o.Name, k.What))
				continue
			}
			path, confirmed := r.writeReplay(o)
			if baseSet[o.Name] || (o.Kind == "post" && baseClause[stripReturn(o.Name)]) || !hasBase || confirmed || o.Definite {
				sfx := ""
				if !confirmed {
					sfx = " no-failing-input-found"
				}
				violations = append(violations, fmt.Sprintf("VIOLATION property=%s replay=%s%s", r.prop, path, sfx))
				fmt.Printf("  failed obligation: %s (%s, %s)\n", o.Name, o.Solver, o.Pos)
			} else {
				undecided = append(undecided, "UNDECIDED new-obligation-refuted-without-replay "+o.Name)
			}
		default:
			if _, ok := knownSet[stripReturn(o.Name)]; ok {
				knownHits = append(knownHits, fmt.Sprintf("KNOWN-FINDING: property=%s %s — %s (solver: unknown)", r.prop, o.Name, knownSet[stripReturn(o.Name)].What))
				continue
			}
			if baseSet[o.Name] && vcBase[o.Name] != "" && vcBase[o.Name] == o.VCHash() {
				// the solver gave no answer in time, but this very verification condition was proved when the baseline
				// was written: same formula, same verdict (only a refutation could overturn it)
				nClaimed++
				nDischarged++
				bySolver["baseline (identical condition, no answer in time this run)"]++
				proved = append(proved, o.Name)
				vcNow[o.Name] = o.VCHash()
				fmt.Printf("  no solver answer in time for %s; the identical verification condition is proved in the baseline\n", o.Name)
				continue
			}
			if baseSet[o.Name] {
				path, _ := r.writeReplay(o)
				violations = append(violations, fmt.Sprintf("VIOLATION property=%s replay=%s no-failing-input-found", r.prop, path))
				fmt.Printf("  baseline obligation no longer discharged: %s (%s)\n", o.Name, firstLine(o.Raw))
			} else {
				undecided = append(undecided, "UNDECIDED solver-unknown "+o.Name)
			}
		}
	}
	var stale []string
	var fnames []map[string]interface{}
	for _, fr := range r.reports {
		ent := map[string]interface{}{"function": shortFnKey(fr.Key), "obligations": len(fr.Obls)}
		if fr.Err != "" {
			ent["out_of_subset"] = fr.Err
			stale = append(stale, fmt.Sprintf("UNDECIDED %s: %s", shortFnKey(fr.Key), fr.Err))
			// the function had discharged obligations in the baseline and can no longer be verified at all
			// (its contract does not apply to the changed code): those obligations are no longer discharged
			var lost []string
			pfx := shortFnKey(fr.Key) + "/"
			for n := range baseSet {
				if strings.HasPrefix(n, pfx) && !strings.Contains(n, "/vacuity:") {
					lost = append(lost, n)
					seen[n] = true
				}
			}
			if len(lost) > 0 {
				sort.Strings(lost)
				o := &Obligation{Name: pfx + "contract:applies to the current code", Kind: "contract", Fn: fr.Key, Status: "unknown",
					Raw: "the contract of " + shortFnKey(fr.Key) + " cannot be evaluated on the current code: " + fr.Err + "\nbaseline obligations no longer discharged:\n  " + strings.Join(lost, "\n  ")}
				path, _ := r.writeReplay(o)
				violations = append(violations, fmt.Sprintf("VIOLATION property=%s replay=%s no-failing-input-found", r.prop, path))
				fmt.Printf("  baseline obligations no longer discharged: %d obligations of %s (%s)\n", len(lost), shortFnKey(fr.Key), fr.Err)
			}
		}
		if len(fr.Inlined) > 0 {
			sort.Strings(fr.Inlined)
			var in []string
			for _, k := range fr.Inlined {
				in = append(in, shortFnKey(k))
			}
			ent["inlined"] = in
		}
		if len(fr.Abstracted) > 0 {
			ent["abstracted"] = fr.Abstracted
			if r.verbose {
				fmt.Printf("  abstracted in %s: %v\n", shortFnKey(fr.Key), fr.Abstracted)
			}
		}
		var unk []string
		for _, c := range fr.Callees {
			if strings.HasPrefix(c, "unknown:") {
				unk = append(unk, shortFnKey(strings.TrimPrefix(c, "unknown:")))
			}
		}
		if len(unk) > 0 {
			sort.Strings(unk)
			ent["havocked_calls"] = unk
		}
		fnames = append(fnames, ent)
	}
	var missing []string
	for n := range baseSet {
		if !seen[n] {
			missing = append(missing, n)
		}
	}
	sort.Strings(missing)

	for _, s := range stale {
		fmt.Println(s)
	}
	for _, s := range undecided {
		fmt.Println(s)
	}
	baseCover := map[string]bool{}
	for _, n := range base[r.prop+"#unreachable"] {
		baseCover[n] = true
	}
	var newCoverLost []string
	for _, s := range coverLost {
		if !baseCover[s] {
			newCoverLost = append(newCoverLost, s)
			fmt.Println("COVER-LOST", s)
		}
	}
	for _, s := range missing {
		fmt.Println("BASELINE-MISSING", s)
	}
	for _, s := range knownHits {
		fmt.Println(s)
	}
	for _, s := range violations {
		fmt.Println(s)
	}
	for _, s := range toolErrors {
		fmt.Println("TOOL-ERROR", s)
	}
	wall := time.Since(r.t0).Seconds()
	fmt.Printf("property %s tier %s: %d obligations, %d discharged, %d violations, %d known findings, %d undecided, %d stale/out-of-subset functions; load %.1fs gen %.1fs solve %.1fs\n",
		r.prop, r.tier, nClaimed+len(violations), nDischarged, len(violations), len(knownHits), len(undecided), len(stale), r.tLoad, r.tGen, r.tSolve)

	if r.writeBaseline && (len(violations) > 0 || len(toolErrors) > 0) {
		fmt.Println("BASELINE-NOT-WRITTEN: the run has violations or tool errors")
	} else if r.writeBaseline {
		sort.Strings(proved)
		base[r.prop] = proved
		sort.Strings(coverLost)
		base[r.prop+"#unreachable"] = coverLost
		var vcs []string
		for _, n := range proved {
			if h := vcNow[n]; h != "" {
				vcs = append(vcs, n+"\t"+h)
			}
		}
		base[r.prop+"#vc"] = vcs
		var locs []string
		for _, fr := range r.reports {
			if fr.Locals != "" && fr.Err == "" {
				locs = append(locs, fr.Key+"\t"+fr.Locals)
			}
		}
		sort.Strings(locs)
		base[r.prop+"#locals"] = locs
		b, _ := json.MarshalIndent(base, "", " ")
		os.MkdirAll(filepath.Dir(r.baselineFile), 0o755)
		os.WriteFile(r.baselineFile, b, 0o644)
	}

	if r.evidence != "" {
		var assumptions []string
		assumptions = append(assumptions, globalAssumptions...)
		// assumed (trusted) contracts actually used
		var trusted []string
		for k, c := range r.eng.cs.Funcs {
			if c.Trusted && c.Used {
				trusted = append(trusted, "assumed contract: "+shortFnKey(k))
			}
		}
		sort.Strings(trusted)
		assumptions = append(assumptions, trusted...)
		// entry preconditions
		for _, fr := range r.reports {
			c := r.eng.cs.Funcs[fr.Key]
			for _, rq := range c.Requires {
				assumptions = append(assumptions, fmt.Sprintf("precondition of %s: %s (checked at call sites under contract, assumed for other callers)", shortFnKey(fr.Key), rq.Text))
			}
		}
		ev := map[string]interface{}{
			"property_id": r.prop,
			"tier":        r.tier,
			"seed":        r.seed,
			"level":       "proof",
			"coverage": map[string]interface{}{
				"obligations":              nClaimed + len(violations),
				"discharged":               nDischarged,
				"checker_cmd":              fmt.Sprintf("/verif/bin/govc -prop %s -tier %s (go/ssa naive-form WP over /repo working tree; z3-new 5.1.0 / cvc5 1.0 / z3 4.8.12 raced per obligation)", r.prop, r.tier),
				"trusted_base":             trustedBase,
				"samples":                  samples,
				"functions_under_contract": fnames,
				"discharged_by_backend":    bySolver,
				"solver_time_s":            round3(solverTime),
				"undecided":                append(append([]string{}, undecided...), stale...),
				"cover_lost":               newCoverLost,
				"unreachable_in_baseline":  len(coverLost) - len(newCoverLost),
				"known_findings":           knownHits,
				"baseline_missing":         missing,
				"bounded":                  []string{},
				"integer_semantics":        "Go fixed-width two's-complement bit-vectors (int = 64 bit); float64 as IEEE binary64",
				"phases_s":                 map[string]float64{"load": round3(r.tLoad), "vcgen": round3(r.tGen), "solve": round3(r.tSolve)},
			},
			"assumptions": assumptions,
			"wall_s":      round3(wall),
			"violations":  len(violations),
		}
		b, _ := json.MarshalIndent(ev, "", " ")
		os.MkdirAll(filepath.Dir(r.evidence), 0o755)
		os.WriteFile(r.evidence, b, 0o644)
	}
	if len(toolErrors) > 0 {
		return 2
	}
	if len(violations) > 0 {
		return 1
	}
	if nDischarged == 0 {
		fmt.Println("TOOL-ERROR no obligation discharged")
		return 2
	}
	return 0
}

func round3(f float64) float64 { return float64(int64(f*1000+0.5)) / 1000 }

func firstLine(s string) string {
	s = strings.TrimSpace(s)
	if i := strings.Index(s, "\n"); i >= 0 {
		return s[:i]
	}
	return s
}

func (r *runReport) writeReplay(o *Obligation) (string, bool) {
	name := nonFile.ReplaceAllString(o.Name, "_")
	if len(name) > 120 {
		name = name[:120]
	}
	path := filepath.Join(r.replayDir, r.prop, name+".json")
	confirmed := false
	rp := map[string]interface{}{
		"property":      r.prop,
		"obligation":    o.Name,
		"kind":          o.Kind,
		"function":      o.Fn,
		"position":      o.Pos.String(),
		"solver":        o.Solver,
		"solver_status": o.Status,
		"solver_output": truncate(o.Raw, 4000),
		"model":         o.Model,
	}
	if o.Status == "refuted" {
		res := r.tryReplay(o, strings.TrimSuffix(path, ".json"))
		rp["replay"] = res
		confirmed = res.Confirmed
	} else {
		rp["replay"] = map[string]interface{}{"confirmed": false, "reason": "no model (solver returned " + o.Status + ")"}
	}
	if o.Note != "" {
		if b, err := os.ReadFile(o.Note); err == nil && len(b) < 400000 {
			os.WriteFile(strings.TrimSuffix(path, ".json")+".smt2", b, 0o644)
			rp["smt2"] = strings.TrimSuffix(path, ".json") + ".smt2"
		}
	}
	b, _ := json.MarshalIndent(rp, "", " ")
	os.WriteFile(path, b, 0o644)
	return path, confirmed
}

func truncate(s string, n int) string {
	if len(s) > n {
		return s[:n] + "…"
	}
	return s
}

var trustedBase = []string{
	"govc VC generator (SSA-to-SMT encoding of Go semantics, written for this task)",
	"golang.org/x/tools/go/ssa v0.29.0 and go/types (front end)",
	"SMT solvers z3 5.1.0, cvc5 1.0, z3 4.8.12",
	"assumed contracts in /verif/specs (standard library, third-party, crypto primitives)",
}

var globalAssumptions = []string{
	"callee contracts are used instead of callee bodies; calls without contract are inlined (small, in-repo) or havoc everything",
	"struct objects of distinct named types do not overlap (Burstall-Bornat field heaps; interior pointers into nested by-value structs are opaque)",
	"slice headers satisfy 0 <= len <= cap <= 2^40; allocation never fails; no stack overflow",
	"goroutine interleavings, channels, timers, cgo bodies are not modelled (calls to them havoc the heap)",
	"partial correctness: termination only where a decreases clause is given",
	"pure-marked functions/interface methods are deterministic functions of their arguments' identities",
}

// stripReturn drops the " @returnN" suffix of a postcondition obligation: a known finding names
// the contract clause, not the return statement it was checked at.
func stripReturn(n string) string {
	if i := strings.LastIndex(n, " @return"); i >= 0 {
		return n[:i]
	}
	return n
}
