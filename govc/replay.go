package main

type replayResult struct {
	Confirmed bool   `json:"confirmed"`
	Reason    string `json:"reason,omitempty"`
	TestFile  string `json:"test_file,omitempty"`
	Output    string `json:"output,omitempty"`
	Cmd       string `json:"cmd,omitempty"`
}

func (r *runReport) tryReplay(o *Obligation, base string) replayResult {
	return replayResult{Confirmed: false, Reason: "replay generator not available for this obligation kind"}
}
