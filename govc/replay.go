package main

// Replay: turn a solver model of a refuted obligation into a Go test that is
// injected into the real package with `go test -overlay`, and check that the
// real code shows the predicted behaviour (a panic for safety obligations, the
// predicted return values for postconditions).

import (
	"encoding/json"
	"fmt"
	"go/types"
	"math/big"
	"os"
	"os/exec"
	"path/filepath"
	"strings"
	"time"

	"golang.org/x/tools/go/ssa"
)

type replayResult struct {
	Confirmed bool   `json:"confirmed"`
	Reason    string `json:"reason,omitempty"`
	TestFile  string `json:"test_file,omitempty"`
	Output    string `json:"output,omitempty"`
	Cmd       string `json:"cmd,omitempty"`
	Expected  string `json:"expected,omitempty"`
}

type replayCtx struct {
	ex      *executor
	fn      *ssa.Function
	params  []Value
	outs    []Value // return values at this obligation (post obligations)
	outType *types.Tuple
}

const replayElems = 48

type matReq struct {
	terms []*Term
	small []*Term // constraints preferring small inputs
}

func (m *matReq) add(t *Term) { m.terms = append(m.terms, t) }

type notReplayable struct{ why string }

// collect registers every term whose model value is needed to rebuild v of type t.
func (rc *replayCtx) collect(m *matReq, v Value, t types.Type, depth int, nest int) {
	if depth > 4 {
		panic(notReplayable{"value nesting too deep"})
	}
	ex := rc.ex
	switch u := t.Underlying().(type) {
	case *types.Basic:
		if u.Info()&types.IsString != 0 {
			panic(notReplayable{"string-typed input"})
		}
		m.add(v.C[0])
	case *types.Slice:
		for _, c := range v.C {
			m.add(c)
		}
		m.small = append(m.small, BVCmp("bvsle", v.C[3], BVI(replayElems, 64)))
		n := replayElems
		if nest > 0 {
			n = 8
		}
		for i := 0; i < n; i++ {
			a := &Addr{Kind: "elem", Base: v.C[0], Idx: BVBin("bvadd", v.C[1], BVI(int64(i), 64)), Root: u.Elem()}
			ev := ex.load(ex.entry, a)
			rc.collect(m, ev, u.Elem(), depth+1, nest+1)
		}
	case *types.Pointer:
		m.add(v.C[0])
		if _, ok := u.Elem().Underlying().(*types.Struct); !ok {
			panic(notReplayable{"pointer to non-struct input"})
		}
		if v.A != nil && v.A.Kind != "obj" {
			panic(notReplayable{"interior pointer input"})
		}
		pv := ex.load(ex.entry, &Addr{Kind: "obj", Base: v.C[0], Root: u.Elem()})
		rc.collect(m, pv, u.Elem(), depth+1, nest)
	case *types.Struct:
		lo := 0
		for i := 0; i < u.NumFields(); i++ {
			n := len(shapeOf(u.Field(i).Type()))
			ft := u.Field(i).Type()
			fv := Value{T: ft, C: v.C[lo : lo+n]}
			if rc.skippable(ft) {
				lo += n
				continue
			}
			rc.collect(m, fv, ft, depth+1, nest)
			lo += n
		}
	default:
		panic(notReplayable{"input of type " + shortTypeKey(t)})
	}
}

// skippable: field types left at their zero value in replays (mutexes, funcs, interfaces...).
func (rc *replayCtx) skippable(t types.Type) bool {
	switch u := t.Underlying().(type) {
	case *types.Interface, *types.Signature, *types.Chan, *types.Map:
		return true
	case *types.Struct:
		s := typeKey(t)
		if strings.HasPrefix(s, "sync.") || strings.HasPrefix(s, "time.") {
			return true
		}
		_ = u
	case *types.Basic:
		return u.Info()&types.IsString != 0
	case *types.Pointer:
		if _, ok := u.Elem().Underlying().(*types.Struct); !ok {
			return true
		}
	}
	return false
}

type modelVals map[int]string // term id -> smt value

func smtToBig(s string) (*big.Int, bool) {
	s = strings.TrimSpace(s)
	switch {
	case strings.HasPrefix(s, "#x"):
		v, ok := new(big.Int).SetString(s[2:], 16)
		return v, ok
	case strings.HasPrefix(s, "#b"):
		v, ok := new(big.Int).SetString(s[2:], 2)
		return v, ok
	case strings.HasPrefix(s, "(- "):
		v, ok := new(big.Int).SetString(strings.TrimSuffix(strings.TrimSpace(s[3:]), ")"), 10)
		if ok {
			v.Neg(v)
		}
		return v, ok
	case strings.HasPrefix(s, "(_ bv"):
		f := strings.Fields(s[5:])
		v, ok := new(big.Int).SetString(f[0], 10)
		return v, ok
	}
	v, ok := new(big.Int).SetString(s, 10)
	return v, ok
}

func (mv modelVals) intOf(t *Term, signed bool) *big.Int {
	if t.IsConst() {
		if signed {
			return t.SignedVal()
		}
		return t.val
	}
	s, ok := mv[t.id]
	if !ok {
		panic(notReplayable{"model has no value for " + t.Short()})
	}
	v, ok := smtToBig(s)
	if !ok {
		panic(notReplayable{"cannot parse model value " + s})
	}
	if signed && t.sort.K == SBV {
		half := new(big.Int).Lsh(big.NewInt(1), uint(t.sort.W-1))
		if v.Cmp(half) >= 0 {
			v = new(big.Int).Sub(v, new(big.Int).Lsh(big.NewInt(1), uint(t.sort.W)))
		}
	}
	return v
}

func (mv modelVals) boolOf(t *Term) bool {
	if t.IsConst() {
		return t == True
	}
	return strings.TrimSpace(mv[t.id]) == "true"
}

// goLit builds a Go expression of type t from the model. qual qualifies type names.
func (rc *replayCtx) goLit(mv modelVals, v Value, t types.Type, depth int, qual types.Qualifier, nest int) string {
	ex := rc.ex
	ts := types.TypeString(t, qual)
	switch u := t.Underlying().(type) {
	case *types.Basic:
		switch {
		case u.Info()&types.IsBoolean != 0:
			return fmt.Sprintf("%s(%t)", ts, mv.boolOf(v.C[0]))
		case u.Info()&types.IsInteger != 0:
			return fmt.Sprintf("%s(%s)", ts, mv.intOf(v.C[0], isSigned(t)).String())
		}
		panic(notReplayable{"input of type " + ts})
	case *types.Slice:
		arr := mv.intOf(v.C[0], false)
		ln := mv.intOf(v.C[2], true).Int64()
		cp := mv.intOf(v.C[3], true).Int64()
		if arr.Sign() == 0 && ln == 0 {
			return fmt.Sprintf("%s(nil)", ts)
		}
		if ln < 0 || cp < ln || cp > 1<<24 {
			panic(notReplayable{fmt.Sprintf("slice of length %d capacity %d in model is too large to replay", ln, cp)})
		}
		n := int64(replayElems)
		if nest > 0 {
			n = 8
		}
		var sb strings.Builder
		fmt.Fprintf(&sb, "func() %s { s := make(%s, %d, %d); ", ts, ts, ln, cp)
		for i := int64(0); i < n && i < ln; i++ {
			a := &Addr{Kind: "elem", Base: v.C[0], Idx: BVBin("bvadd", v.C[1], BVI(i, 64)), Root: u.Elem()}
			ev := ex.load(ex.entry, a)
			fmt.Fprintf(&sb, "s[%d] = %s; ", i, rc.goLit(mv, ev, u.Elem(), depth+1, qual, nest+1))
		}
		sb.WriteString("return s }()")
		return sb.String()
	case *types.Pointer:
		p := mv.intOf(v.C[0], false)
		if p.Sign() == 0 {
			return fmt.Sprintf("(%s)(nil)", ts)
		}
		pv := ex.load(ex.entry, &Addr{Kind: "obj", Base: v.C[0], Root: u.Elem()})
		return "&" + rc.goLit(mv, pv, u.Elem(), depth+1, qual, nest)
	case *types.Struct:
		var fs []string
		lo := 0
		for i := 0; i < u.NumFields(); i++ {
			n := len(shapeOf(u.Field(i).Type()))
			ft := u.Field(i).Type()
			if !rc.skippable(ft) {
				fv := Value{T: ft, C: v.C[lo : lo+n]}
				fs = append(fs, fmt.Sprintf("%s: %s", u.Field(i).Name(), rc.goLit(mv, fv, ft, depth+1, qual, nest)))
			}
			lo += n
		}
		return fmt.Sprintf("%s{%s}", ts, strings.Join(fs, ", "))
	}
	panic(notReplayable{"input of type " + ts})
}

// describeResult renders predicted results for comparison with the real run.
func (rc *replayCtx) predicted(mv modelVals) string {
	var parts []string
	for i, v := range rc.outs {
		t := rc.outType.At(i).Type()
		parts = append(parts, predictedOne(mv, v, t))
	}
	return strings.Join(parts, " | ")
}

func predictedOne(mv modelVals, v Value, t types.Type) string {
	switch u := t.Underlying().(type) {
	case *types.Basic:
		switch {
		case u.Info()&types.IsBoolean != 0:
			return fmt.Sprintf("%t", mv.boolOf(v.C[0]))
		case u.Info()&types.IsInteger != 0:
			return mv.intOf(v.C[0], isSigned(t)).String()
		}
		return "?"
	case *types.Interface, *types.Pointer, *types.Map:
		if mv.intOf(v.C[0], false).Sign() == 0 {
			return "nil"
		}
		return "non-nil"
	case *types.Slice:
		return fmt.Sprintf("len=%s", mv.intOf(v.C[2], true).String())
	}
	return "?"
}

func resultPrinter(i int, t types.Type) string {
	r := fmt.Sprintf("r%d", i)
	switch u := t.Underlying().(type) {
	case *types.Basic:
		switch {
		case u.Info()&types.IsBoolean != 0:
			return fmt.Sprintf(`fmt.Sprintf("%%t", %s)`, r)
		case u.Info()&types.IsInteger != 0:
			return fmt.Sprintf(`fmt.Sprintf("%%d", %s)`, r)
		}
		return `"?"`
	case *types.Interface, *types.Pointer, *types.Map:
		return fmt.Sprintf(`map[bool]string{true: "nil", false: "non-nil"}[%s == nil]`, r)
	case *types.Slice:
		return fmt.Sprintf(`fmt.Sprintf("len=%%d", len(%s))`, r)
	}
	return `"?"`
}

func (r *runReport) tryReplay(o *Obligation, base string) (res replayResult) {
	rc := o.RP
	if rc == nil || rc.fn == nil {
		return replayResult{Reason: "no replay context for this obligation (lemma or inlined context)"}
	}
	defer func() {
		if x := recover(); x != nil {
			if nr, ok := x.(notReplayable); ok {
				res = replayResult{Reason: "model not replayable: " + nr.why}
				return
			}
			if u, ok := x.(unsupported); ok {
				res = replayResult{Reason: "model not replayable: " + u.msg}
				return
			}
			panic(x)
		}
	}()
	fn := rc.fn
	if fn.Pkg == nil || fn.Parent() != nil {
		return replayResult{Reason: "function is a closure or has no package"}
	}
	sig := fn.Signature
	if sig.Variadic() {
		return replayResult{Reason: "variadic function"}
	}
	// 1. terms to ask for
	m := &matReq{}
	var ptypes []types.Type
	if sig.Recv() != nil {
		ptypes = append(ptypes, sig.Recv().Type())
	}
	for i := 0; i < sig.Params().Len(); i++ {
		ptypes = append(ptypes, sig.Params().At(i).Type())
	}
	if len(ptypes) != len(rc.params) {
		return replayResult{Reason: "parameter count mismatch"}
	}
	for i, pv := range rc.params {
		rc.collect(m, pv, ptypes[i], 0, 0)
	}
	safety := o.Kind != "post" && o.Kind != "frame"
	if !safety {
		for _, ov := range rc.outs {
			for _, c := range ov.C {
				m.add(c)
			}
		}
	}
	// 2. solve again asking for these values
	q := o.query(TS.axioms)
	q.GetValues = nil
	seen := map[int]bool{}
	for _, t := range m.terms {
		if !t.IsConst() && !seen[t.id] && !t.bound {
			seen[t.id] = true
			q.GetValues = append(q.GetValues, t)
		}
	}
	smtFile := base + ".replay.smt2"
	defer os.Remove(smtFile)
	baseAsserts := q.Asserts
	q.Asserts = append(append([]*Term{}, baseAsserts...), m.small...)
	txt, gv := q.Render(true)
	os.WriteFile(smtFile, []byte(txt), 0o644)
	out := solveQuery(smtFile, 20, 60, false)
	if out.status != "sat" {
		q.Asserts = baseAsserts
		txt, gv = q.Render(true)
		os.WriteFile(smtFile, []byte(txt), 0o644)
		out = solveQuery(smtFile, 20, 60, false)
	}
	if out.status != "sat" {
		return replayResult{Reason: "model query returned " + out.status}
	}
	pairs := parseValuePairs(out.raw)
	mv := modelVals{}
	for e, t := range gv {
		if v, ok := pairs[e]; ok {
			mv[t.id] = v
		}
	}
	// 3. Go test
	pkg := fn.Pkg.Pkg
	qual := func(p *types.Package) string {
		if p == pkg {
			return ""
		}
		return p.Name()
	}
	imports := map[string]string{}
	qualImp := func(p *types.Package) string {
		if p == pkg {
			return ""
		}
		imports[p.Path()] = p.Name()
		return p.Name()
	}
	_ = qual
	var sb strings.Builder
	var argNames []string
	var decls strings.Builder
	for i, pv := range rc.params {
		name := fmt.Sprintf("a%d", i)
		argNames = append(argNames, name)
		fmt.Fprintf(&decls, "\t%s := %s\n", name, rc.goLit(mv, pv, ptypes[i], 0, qualImp, 0))
	}
	var call string
	if sig.Recv() != nil {
		call = fmt.Sprintf("%s.%s(%s)", argNames[0], fn.Name(), strings.Join(argNames[1:], ", "))
	} else {
		call = fmt.Sprintf("%s(%s)", fn.Name(), strings.Join(argNames, ", "))
	}
	nres := sig.Results().Len()
	var lhs []string
	var prints []string
	for i := 0; i < nres; i++ {
		lhs = append(lhs, fmt.Sprintf("r%d", i))
		prints = append(prints, resultPrinter(i, sig.Results().At(i).Type()))
	}
	fmt.Fprintf(&sb, "package %s\n\nimport (\n\t\"fmt\"\n\t\"testing\"\n", pkg.Name())
	for p, n := range imports {
		fmt.Fprintf(&sb, "\t%s %q\n", n, p)
	}
	sb.WriteString(")\n\n")
	fmt.Fprintf(&sb, "// generated by govc: replay of the solver model for obligation\n//   %s\n", o.Name)
	sb.WriteString("func TestGovcReplay(t *testing.T) {\n")
	sb.WriteString("\tdefer func() {\n\t\tif r := recover(); r != nil {\n\t\t\tfmt.Printf(\"GOVC-PANIC: %v\\n\", r)\n\t\t}\n\t}()\n")
	sb.WriteString(decls.String())
	if nres > 0 {
		fmt.Fprintf(&sb, "\t%s := %s\n", strings.Join(lhs, ", "), call)
		fmt.Fprintf(&sb, "\tfmt.Printf(\"GOVC-RESULT: %%s\\n\", strings.Join([]string{%s}, \" | \"))\n", strings.Join(prints, ", "))
	} else {
		fmt.Fprintf(&sb, "\t%s\n\tfmt.Printf(\"GOVC-RESULT: \\n\")\n", call)
	}
	sb.WriteString("}\n")
	src := sb.String()
	if nres > 0 {
		src = strings.Replace(src, "\t\"testing\"\n", "\t\"strings\"\n\t\"testing\"\n", 1)
	}
	testFile := base + "_test.go"
	os.WriteFile(testFile, []byte(src), 0o644)
	// 4. run with overlay
	pkgDir := filepath.Dir(r.eng.fset.Position(fn.Pos()).Filename)
	ov := map[string]map[string]string{"Replace": {filepath.Join(pkgDir, "zz_govc_replay_test.go"): testFile}}
	ovb, _ := json.Marshal(ov)
	ovFile := base + ".overlay.json"
	os.WriteFile(ovFile, ovb, 0o644)
	args := []string{"test", "-overlay", ovFile, "-vet=off", "-count=1", "-v", "-timeout", "60s", "-run", "^TestGovcReplay$", "."}
	cmd := exec.Command("go", args...)
	cmd.Dir = pkgDir
	cmd.Env = append(os.Environ(), "GOFLAGS=-mod=mod", "GOPROXY=off", "GOSUMDB=off", "GOTOOLCHAIN=local")
	done := make(chan struct{})
	var outb []byte
	go func() { outb, _ = cmd.CombinedOutput(); close(done) }()
	select {
	case <-done:
	case <-time.After(180 * time.Second):
		if cmd.Process != nil {
			cmd.Process.Kill()
		}
		<-done
	}
	output := string(outb)
	res = replayResult{TestFile: testFile, Output: truncate(output, 3000), Cmd: "cd " + pkgDir + " && go " + strings.Join(args, " ")}
	if safety {
		res.Expected = "panic"
		if strings.Contains(output, "GOVC-PANIC:") || strings.Contains(output, "panic:") {
			res.Confirmed = true
		} else {
			res.Reason = "the real code did not panic on the model input"
		}
		return res
	}
	exp := rc.predicted(mv)
	res.Expected = "GOVC-RESULT: " + exp
	if strings.Contains(exp, "?") {
		res.Reason = "predicted results not comparable"
		return res
	}
	for _, l := range strings.Split(output, "\n") {
		if strings.HasPrefix(l, "GOVC-RESULT: ") {
			if strings.TrimSpace(strings.TrimPrefix(l, "GOVC-RESULT: ")) == exp {
				res.Confirmed = true
			} else {
				res.Reason = "real results differ from the model's prediction"
			}
			return res
		}
	}
	res.Reason = "no result line in test output"
	return res
}
