#!/usr/bin/env python3
"""Regenerates /verif/MANIFEST.json from the tables below (run after claiming / un-claiming a property)."""
import json, subprocess

CLAIMED = {
 # id: (level text, level note)
 "C07": ("Deductive proof over the real code: AreDistinctHeadersContradicting's result equals the LIP-0014 contradiction relation (spec function transcribed from the LIP) for all 2^192 header field combinations and all generator-equality outcomes; symmetry and different-generator lemmas are proved over that spec, hence over the code; fork-choice predicates equal their LIP-0014 definitions. Tests sample a few dozen header pairs; the obligations quantify over all of them.",
         "Interface getters are assumed pure (deterministic in the receiver); bytes.Equal is an assumed symmetric predicate on slice identities; the 'never flagged for an honest generator / always flagged inside the window' history part is only decided per call."),
 "C20": ("Deductive proof of the lockset and ownership discipline on the real code: blockCache.last/get/getByHeight/push/pop acquire and release the cache mutex on every path, never re-acquire it while held (recursive read locking is a precondition violation of the RWMutex contract), and meet functional contracts over both indexes; a staged-store prefix view shares cache, database and the same mutex as its parent; every goroutine started in a loop by the bulk lookups (headers by ids / heights, transactions by ids, blocks by range) writes only its own slice slot (write-set ownership decided on the SSA of the closure).",
         "Cross-goroutine interleavings, lock ordering between different mutexes, channel sends under a lock (EventEmitter) and the certificate pool are not decided; ownership obligations are syntactic frame conditions (index must be an injective expression of a per-iteration variable or the write must follow a Lock in the closure); one known finding (blockSyncer.Sync peer fan-out) is listed in known-findings.json."),
 "C04": ("Deductive proof over the real code of the guards that make finality irreversible: deleteBlock succeeds only for a block strictly above the stored finalized height and checks this before any write; the finalized height handed to Chain.AddBlock by processValidated equals max(stored, maxHeightPrecommitted) (never lower), is staged in the same batch as the block, and the finalize event is published exactly when the height is raised; rejected blocks perform no database write and publish nothing. All paths of these functions, all argument values.",
         "Callees are used through contracts: liskbft API reads, DataAccess reads, diffdb commit/revert, ABI bridge, pebble batch write, event emitter are trusted stubs with ghost call records (listed in evidence); the induction 'guards hold at every step => finalized prefix never changes' over histories is not mechanised; sync callers of deleteBlock are not yet under contract."),
 "C05": ("Deductive proof over the real code of the pieces that make block removal an exact inverse: Commit's returned diff records, for every deleted and updated key, the value the key had in the database before the block (its initial value, never an intermediate one) and lists as added only keys that were absent; Commit writes exactly the staged state; deleteBlock reverts the consensus-store diff into the same batch that removes the block, only above the finalized height, in one database write; Chain.RemoveBlock never removes genesis and writes nothing on error; the block cache's push/pop keep the id index and the height index in step (a popped block disappears from both).",
         "RevertDiff's byte-for-byte inverse lemma over all stores, key-level symmetry of saveBlock/removeBlock (trusted stubs), ABI revert and temp-block retention are not yet under contract; completeness of the diff lists (every touched key appears) is not decided (quantifier alternation)."),
 "C06": ("Deductive proof over the real code of aggregate-commit acceptance: verifyAggregateCommit returns nil only if the commit is empty at maxHeightCertified, or both parts are non-empty with maxHeightCertified < height <= maxHeightPrecommitted, height <= next-BFT-parameter height - 1 when one exists, and the weighted aggregate verification was performed on the node's own block certificate of that height with that height's certificate threshold and with each weight bound to its BLS key; BLSVerifyWeightedAggSig returns true only if the weights of the set bits reach the threshold (loop invariant over a recursive sum spec) and never indexes outside the bitmap; Bits.read/write bit semantics.",
         "BLS pairing primitives (blst, cgo) are uninterpreted and assumed not to panic; sort.Slice is assumed to permute in place and sort by the comparator; liskbft API reads and BLS-key uniqueness inside a parameter set are assumed (trusted stubs); GetAggregateCommit self-consistency and the single-commit pool admission path are not yet under contract."),
 "C12": ("Deductive proof over the real code of the staged store against an abstract view (cache entry if present, else database): Database.Get/Has return exactly the view of the prefixed key and leave every key's view unchanged; Set/Del change exactly that key's view; the cache primitives (add/cache/set/get/del/existAny) meet their entry-level specifications; cacheValue.copy and cacheDB.copy are deep, alias-free copies that keep 'absent in database' distinct from 'empty value'; Snapshot stores such a copy under a fresh id, RestoreSnapshot installs exactly that snapshot (or changes nothing for an unknown id); Commit writes exactly the staged final state of every cached key and touches no other key (map iteration with a visited-set invariant). Keys are compared by byte-string content.",
         "The underlying database is an uninterpreted content function (DatabaseReader.Get contract); merged range/prefix scans (Range, Iterate, mergeSortLimit), the db package iterators, RevertDiff's byte-for-byte restoration and prefix-view sharing are not yet under contract; bytes.JoinSize concatenation is a trusted string-level contract; snapshots are assumed not to be mutated between Snapshot and RestoreSnapshot (no code path does)."),
 "C16": ("Deductive proof over the real code of transaction atomicity: ExecuteTransaction takes the store and event-log snapshots before the command, restores exactly that store snapshot and the event log when (and only when) the command fails, and appends the standard event - carrying success iff the command succeeded - after the restore; EventLogger.Add appends a revertible event and AddUnrevertible an unrevertible one with the next index, RestoreSnapshot keeps the entries before the mark and exactly the unrevertible later ones; the SMT batch maps every state write to (tree key, hash(value)) and every delete to (tree key, empty hash) and forwards it to the database batch; ABIHandler.revert dereferences no nil pointer on any path, including restart recovery.",
         "Modules and commands are arbitrary (frame-less) but assumed not to take/restore snapshots of the transaction store or event log themselves and to keep them well-formed (rely conditions, listed in evidence); state root = sparse-Merkle root of the state is assumed (C10 not applicable); re-indexing of surviving events after a restore and Commit's root comparison are not yet under contract."),
 "C13": ("Deductive proof over the real code of the single-batch discipline: Chain.AddBlock and Chain.RemoveBlock perform exactly one database write, of the batch they were handed, and none on error; processValidated and deleteBlock reach the database only through that one call (ghost write counter on db.DB.Write/Set/Del), and the consensus-store commit / revert is staged into the very batch that is written with the block.",
         "Atomicity and durability of one pebble batch (Apply with Sync) is assumed, crash points inside pebble are not enumerated; saveBlock/removeBlock key-level content is a trusted stub; genesis path and PrepareCache are not yet under contract."),
 "C18": ("Deductive proof over the real code of the connection gater: addPenalty adds the score to the entry of exactly that IP (new entry: the score itself), returns the sum, sets a ban expiry (never the 'not banned' marker) exactly when the sum reaches 100, leaves every other IP's entry untouched and changes nothing on error; the inbound and outbound gates (isPeerConnectionAllowed, InterceptAddrDial, InterceptAccept, InterceptSecured) return exactly 'not blacklisted and not banned' (outbound InterceptSecured: true); blockAddr/unblockAddr change exactly one blacklist entry; the expiry sweeper only deletes map entries (it never edits a peerInfo, so a swept IP restarts with a clean score); the gater's mutex is never re-acquired by the goroutine holding it and is released on every path.",
         "manet.ToIP/net.IP.String are uninterpreted functions of the address; time.Now().Unix() >= 0 and Duration.Seconds are assumed; the sweeper's 'expired entries are removed' direction, Peer.addPenalty/banPeer disconnects, rate-limit penalties and the history statement 'refused until expiry' are not yet under contract; other goroutines are assumed to preserve the gater invariant (rely condition at yield points)."),
 "C19": ("Deductive proof over the real code of the peer-selection filters and height lists: every peer kept by the maxHeightPrevoted (resp. height) filter has a value >= every offered peer, the filters never return an empty list for a non-empty input, getLastHeights/getHeightWithGap return strictly the documented descending lists and never a height below the given minimum (loop invariants, unbounded list length).",
         "Completeness of the filters (every maximal peer is kept) and the most-frequent-block-ID filter are not decided yet (quantifier alternation / map iteration); RPC handlers and convergence are not covered; heights are assumed < 2^31 and gap/num small (stated as preconditions)."),
 "C08": ("Deductive proof over the real code of the varint layer: readUint accepts exactly the canonical (shortest, terminated, <= 10 bytes, 10th byte <= 1) LEB128 strings, returns their value, and is complete for every canonical string (10-way unrolling with a discharged unwinding assertion, so unbounded in the input); varintShortestSize equals the LIP-0027 length function; key decoding accepts exactly wire types 0/2.",
         "NFC normalisation (x/text) and utf8.Valid are assumed; generated per-type Encode/Decode functions beyond those under contract are not yet covered (listed in evidence)."),
}

NA = {
 "C10": "not applicable to this technique here: trie.Update/Prove are mutually recursive over goroutines and channels and the property needs structural induction over hash trees; no contract within reach of the self-written WP generator expresses it (DESIGN.md section 4, C10)",
 "C11": "not applicable: CalculateRoot recurses through goroutines/channels and splits with math.Pow/math.Log2 (no SMT theory); equalities are inductions over tree shape (DESIGN.md section 4, C11)",
 "C17": "not applicable: the property is about interleavings of sendRequestMessage/onResponse/timers; sequential contracts cannot decide or replay schedule-dependent lost replies or deadlocks (DESIGN.md section 4, C17)",
}

PENDING_REASON = "check not built yet (contracts for this property are still being written); see DESIGN.md section 4 for the plan"

props = [json.loads(l) for l in open('/verif/properties.jsonl')]
hooks = subprocess.run(['git','-C','/repo','log','--format=%H %s'],capture_output=True,text=True).stdout.splitlines()
hook_commits = [l.split()[0] for l in hooks if 'verif hook' in l]

checks=[]; na=[]
for p in props:
    i=p['id']
    if i in CLAIMED:
        text,note=CLAIMED[i]
        checks.append({
          "property_id": i,
          "quick_cmd": f"./check {i} quick",
          "thorough_cmd": f"./check {i} thorough",
          "evidence_file": f"/verif/evidence/{i}.json",
          "replay_cmd_template": "./check --replay {path}",
          "engine": "govc",
          "level_claimed": {"category":"proof","text":text,"design_ref":"DESIGN.md section 4 ("+i+")"},
          "level_note": note,
          "technique": "contract-based deductive verification: weakest-precondition VCs generated from go/ssa of /repo against //@ contracts, discharged by z3/cvc5",
        })
    else:
        na.append({"property_id":i,"reason":NA.get(i,PENDING_REASON)})

m={"version":1,
   "setup_cmd":"cd /verif/govc && GOFLAGS=-mod=vendor GOPROXY=off GOSUMDB=off GOTOOLCHAIN=local go build -o /verif/bin/govc .",
   "hooks":{"guard":"verif","enable":"contracts are comment-only files pkg/**/zz_contracts_verif.go with //go:build verif; govc loads /repo with -tags=verif",
            "baseline_off_cmd":"cd /repo && go test -vet=off -count=1 ./...","source_commits":hook_commits,"add_only":True},
   "engines":[{"name":"govc","path":"/verif/govc","serves_properties":sorted(CLAIMED),"kind_free_text":"self-written deductive verifier for Go: go/ssa (naive form) -> weakest-precondition verification conditions per function against //@ contracts (requires/ensures/invariant/assigns/ghost), modular calls, bit-vector integers; SMT back ends z3 5.1.0, cvc5 1.0, z3 4.8.12"}],
   "checks":checks,
   "notes":"Every check rebuilds go/ssa from /repo's working tree. Verdict policy: DESIGN.md section 2.10. Known findings: /verif/known-findings.json.",
   "not_applicable":na}
json.dump(m,open('/verif/MANIFEST.json','w'),indent=1)
print("claimed",sorted(CLAIMED),"n/a",len(na))
