#!/bin/bash
# usage: mkwt.sh <name>  — scratch worktree of /repo HEAD under /tmp without the contract files
set -e
d=/tmp/wt-$1
git -C /repo worktree add --detach $d HEAD >/dev/null 2>&1
find $d -name zz_contracts_verif.go -delete
echo $d
