#!/bin/bash
# usage: seedtest.sh <seed-name> <source SEED dir> <property> — confirm a seeded change independently,
# store it under /verif/seeded/<seed-name>/ and run the property's check against it.
set -u
name=$1; src=$2; prop=$3
export GOFLAGS=-mod=mod GOPROXY=off GOSUMDB=off GOTOOLCHAIN=local
dst=/verif/seeded/$name
mkdir -p $dst && cp -r $src/* $dst/
demo_path=$(python3 -c "import json;print(json.load(open('$dst/meta.json'))['demo_path'])")
demo_file=$dst/$(basename $demo_path)
pkgdir=$(dirname $demo_path)
run=$(python3 -c "
import json,re
c=json.load(open('$dst/meta.json'))['demo_cmd']
m=re.search(r'-run\s+(\S+)',c); print(m.group(1).strip('\x27\x22') if m else '.')")
wt=$(mktemp -d /tmp/seedchk-XXXX); rmdir $wt
git -C /repo worktree add --detach $wt HEAD >/dev/null 2>&1
log=$dst/confirm.log; : > $log
cp $demo_file $wt/$demo_path
(cd $wt && go test -vet=off -count=1 -timeout 300s -run "$run" ./$pkgdir/ ) >> $log 2>&1; clean_demo=$?
(cd $wt && git apply $dst/patch.diff) >> $log 2>&1 || echo "PATCH DOES NOT APPLY" | tee -a $log
(cd $wt && go build ./... ) >> $log 2>&1; build=$?
(cd $wt && go test -vet=off -count=1 -timeout 300s -run "$run" ./$pkgdir/ ) >> $log 2>&1; patched_demo=$?
rm -f $wt/$demo_path
pk=$(grep '^+++ b/' $dst/patch.diff | sed 's|+++ b/||' | xargs -n1 dirname | sort -u | sed 's|^|./|;s|$|/...|' | tr '\n' ' ')
(cd $wt && go test -vet=off -count=1 -timeout 900s $pk ) > $dst/suite.log 2>&1; suite=$?
git -C /repo worktree remove --force $wt
echo "demo on clean tree exit=$clean_demo (want 0); build=$build (want 0); demo with patch exit=$patched_demo (want !=0); existing tests of touched packages exit=$suite (want 0, known-failing rmt/smt fixtures aside)" | tee -a $log
grep -E "^(FAIL|---)" $dst/suite.log | head -5
# run our check against the change
cp /verif/evidence/$prop.json /tmp/evidence-$prop.bak 2>/dev/null
git -C /repo apply $dst/patch.diff && (cd /verif && ./check $prop quick > $dst/check.log 2>&1; echo "check exit=$?" | tee -a $dst/check.log); git -C /repo checkout -- . 
cp /tmp/evidence-$prop.bak /verif/evidence/$prop.json 2>/dev/null
grep -E "VIOLATION|failed obligation|baseline obligation|^property" $dst/check.log | head -8
