package diffdb

// D21 demonstration (C12): restoring a snapshot must bring every read - through any key-prefix view - back to the
// staged state at the time of the snapshot.  RestoreSnapshot re-points the restoring store at the snapshot's cache
// object, while every prefix view created earlier keeps the old cache object: the view still sees the writes made
// after the snapshot, and the store and its view stop sharing their staged state altogether.

import (
	"testing"

	"github.com/LiskHQ/lisk-engine/pkg/db"
)

func TestD21RestoreSnapshotReachesExistingPrefixViews(t *testing.T) {
	database, err := db.NewInMemoryDB()
	if err != nil {
		t.Fatal(err)
	}
	defer database.Close()
	store := New(database, []byte{1})
	view := store.WithPrefix([]byte{2})
	id := store.Snapshot()
	view.Set([]byte("k"), []byte("after-snapshot"))
	if err := store.RestoreSnapshot(id); err != nil {
		t.Fatal(err)
	}
	if v, ok := view.Get([]byte("k")); ok {
		t.Errorf("after RestoreSnapshot the view still reads k = %q (written after the snapshot)", v)
	}
	// and the two no longer share staged writes
	view.Set([]byte("x"), []byte("1"))
	if _, ok := store.Get([]byte{2, 'x'}); !ok {
		t.Errorf("a write through the view is invisible to the store after RestoreSnapshot")
	}
}
