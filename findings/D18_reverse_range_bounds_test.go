package db

// D18 demonstration (C12): the database's own range scan must return exactly the keys inside the bounds, in
// either direction.  The reverse scan starts below upperBound(end) - the smallest key above every key that
// has `end` as a prefix - and never compares a key with `end`, so keys that extend `end` are returned although
// they are greater than `end`; with an `end` of 0xff bytes (no upper bound exists) it returns nothing.

import (
	"testing"
)

func d18Keys(kvs []KeyValue) []string {
	out := []string{}
	for _, kv := range kvs {
		out = append(out, string(kv.Key()))
	}
	return out
}

func TestD18ReverseRangeStaysInsideTheBounds(t *testing.T) {
	database, err := NewInMemoryDB()
	if err != nil {
		t.Fatal(err)
	}
	defer database.Close()
	for _, k := range []string{"a", "ab", "abz", "b"} {
		database.Set([]byte(k), []byte("v"))
	}
	forward := d18Keys(database.IterateRange([]byte("a"), []byte("ab"), -1, false))
	reverse := d18Keys(database.IterateRange([]byte("a"), []byte("ab"), -1, true))
	t.Logf("forward %q reverse %q", forward, reverse)
	if len(forward) != 2 || forward[0] != "a" || forward[1] != "ab" {
		t.Fatalf("forward scan of [a, ab] returned %q", forward)
	}
	if len(reverse) != 2 || reverse[0] != "ab" || reverse[1] != "a" {
		t.Errorf("reverse scan of [a, ab] returned %q, want [ab a]", reverse)
	}
}

func TestD18ReverseRangeWithoutUpperBound(t *testing.T) {
	database, err := NewInMemoryDB()
	if err != nil {
		t.Fatal(err)
	}
	defer database.Close()
	database.Set([]byte{0xff}, []byte("v"))
	database.Set([]byte{0x01}, []byte("v"))
	forward := database.IterateRange([]byte{0x00}, []byte{0xff}, -1, false)
	reverse := database.IterateRange([]byte{0x00}, []byte{0xff}, -1, true)
	t.Logf("forward %d entries, reverse %d entries", len(forward), len(reverse))
	if len(forward) != 2 {
		t.Fatalf("forward scan of [00, ff] returned %d entries", len(forward))
	}
	if len(reverse) != 2 {
		t.Errorf("reverse scan of [00, ff] returned %d entries, want 2", len(reverse))
	}
}
