package generator

// D11 demonstration (C15): the generator persisted the height of the block it generated LAST, not
// the LARGEST height it ever generated, and reported that as maxHeightGenerated.  After generating
// at height 100, moving to a better (higher maxHeightPrevoted) but shorter chain and generating at
// heights 90 and 91, the header at height 91 carried maxHeightGenerated = 90 and contradicted the
// generator's own header at height 100 (LIP-0014: b1.height > b2.maxHeightGenerated).
//
// Every step runs the real Generator.forge (header initialisation, sealing, persisting the generator
// info, hand-off to consensus) against a stub application and a stub consensus.  Each step uses a
// fresh Generator and Chain on the same generator DB: a restart of the node on the chain it switched to.

import (
	"context"
	"testing"
	"time"

	"github.com/LiskHQ/lisk-engine/pkg/blockchain"
	"github.com/LiskHQ/lisk-engine/pkg/codec"
	"github.com/LiskHQ/lisk-engine/pkg/collection/bytes"
	"github.com/LiskHQ/lisk-engine/pkg/consensus/contradiction"
	"github.com/LiskHQ/lisk-engine/pkg/consensus/liskbft"
	"github.com/LiskHQ/lisk-engine/pkg/crypto"
	"github.com/LiskHQ/lisk-engine/pkg/db"
	"github.com/LiskHQ/lisk-engine/pkg/db/diffdb"
	"github.com/LiskHQ/lisk-engine/pkg/engine/config"
	"github.com/LiskHQ/lisk-engine/pkg/labi"
	"github.com/LiskHQ/lisk-engine/pkg/log"
	"github.com/LiskHQ/lisk-engine/pkg/txpool"
)

type d11Consensus struct {
	Consensus            // any other method is not expected to be called
	prevoted   uint32    // maxHeightPrevoted of the chain the node is on
	generators liskbft.Generators
	handedOn   []*blockchain.Block
}

func (c *d11Consensus) Syncing() bool                      { return false }
func (c *d11Consensus) AddInternal(block *blockchain.Block) { c.handedOn = append(c.handedOn, block) }
func (c *d11Consensus) GetSlotNumber(unixTime uint32) int   { return int(unixTime / 10) }
func (c *d11Consensus) GetSlotTime(slot int) uint32         { return uint32(slot) * 10 }
func (c *d11Consensus) GetBFTHeights(context *diffdb.Database) (uint32, uint32, uint32, error) {
	return c.prevoted, 0, 0, nil
}
func (c *d11Consensus) GetBFTParameters(context *diffdb.Database, height uint32) (*liskbft.BFTParams, error) {
	return &liskbft.BFTParams{}, nil
}
func (c *d11Consensus) GetGeneratorKeys(context *diffdb.Database, height uint32) (liskbft.Generators, error) {
	return c.generators, nil
}
func (c *d11Consensus) ImpliesMaximalPrevotes(context *diffdb.Database, blockHeader blockchain.ReadableBlockHeader) (bool, error) {
	return false, nil
}
func (c *d11Consensus) BFTBeforeTransactionsExecute(blockHeader blockchain.SealedBlockHeader, diffStore *diffdb.Database) error {
	return nil
}
func (c *d11Consensus) GetAggregateCommit() (*blockchain.AggregateCommit, error) {
	return &blockchain.AggregateCommit{Height: 0, AggregationBits: []byte{}, CertificateSignature: []byte{}}, nil
}

type d11ABI struct {
	labi.ABI // any other method is not expected to be called
}

func (a *d11ABI) InitStateMachine(req *labi.InitStateMachineRequest) (*labi.InitStateMachineResponse, error) {
	return &labi.InitStateMachineResponse{ContextID: codec.Hex{1}}, nil
}
func (a *d11ABI) InsertAssets(req *labi.InsertAssetsRequest) (*labi.InsertAssetsResponse, error) {
	return &labi.InsertAssetsResponse{Assets: []*blockchain.BlockAsset{}}, nil
}
func (a *d11ABI) BeforeTransactionsExecute(req *labi.BeforeTransactionsExecuteRequest) (*labi.BeforeTransactionsExecuteResponse, error) {
	return &labi.BeforeTransactionsExecuteResponse{Events: []*blockchain.Event{}}, nil
}
func (a *d11ABI) AfterTransactionsExecute(req *labi.AfterTransactionsExecuteRequest) (*labi.AfterTransactionsExecuteResponse, error) {
	return &labi.AfterTransactionsExecuteResponse{Events: []*blockchain.Event{}}, nil
}
func (a *d11ABI) Commit(req *labi.CommitRequest) (*labi.CommitResponse, error) {
	return &labi.CommitResponse{StateRoot: crypto.Hash([]byte("state"))}, nil
}
func (a *d11ABI) Clear(req *labi.ClearRequest) (*labi.ClearResponse, error) {
	return &labi.ClearResponse{}, nil
}

// d11ForgeAt runs the real forge of a generator whose chain tip is at tipHeight on a chain with the
// given maxHeightPrevoted, and returns the header handed on to consensus.
func d11ForgeAt(t *testing.T, generatorDB *db.DB, tipHeight uint32, prevoted uint32) *blockchain.BlockHeader {
	t.Helper()
	pub, priv, err := crypto.GetKeys("d11 generator")
	if err != nil {
		t.Fatal(err)
	}
	address := crypto.GetAddress(pub)
	chainDB, err := db.NewInMemoryDB()
	if err != nil {
		t.Fatal(err)
	}
	t.Cleanup(func() { chainDB.Close() })
	tip := &blockchain.BlockHeader{
		Version:          2,
		Timestamp:        uint32(time.Now().Unix()) - 100, // ten slots ago
		Height:           tipHeight,
		PreviousBlockID:  bytes.Repeat([]byte{0}, 32),
		GeneratorAddress: bytes.Repeat([]byte{0}, 20),
		StateRoot:        crypto.Hash([]byte("state")),
		AggregateCommit:  &blockchain.AggregateCommit{AggregationBits: []byte{}, CertificateSignature: []byte{}},
		Signature:        []byte{},
	}
	tip.Init()
	tipBlock := &blockchain.Block{Header: tip, Transactions: []*blockchain.Transaction{}, Assets: []*blockchain.BlockAsset{}}
	chain := blockchain.NewChain(&blockchain.ChainConfig{ChainID: []byte{0, 0, 0, 9}, MaxBlockCache: 10, KeepEventsForHeights: -1})
	chain.Init(tipBlock, chainDB)
	if err := chain.AddBlock(chainDB.NewBatch(), tipBlock, []*blockchain.Event{}, 0, false); err != nil {
		t.Fatal(err)
	}
	cons := &d11Consensus{prevoted: prevoted, generators: liskbft.Generators{liskbft.NewGenerator(address, pub)}}
	g := NewGenerator(&GeneratorParams{Consensus: cons, ABI: &d11ABI{}, Pool: txpool.NewTransactionPool(nil), Chain: chain})
	g.ctx = context.Background()
	g.cfg = &config.Config{Genesis: &config.GenesisConfig{BlockTime: 10, MaxTransactionsSize: 15 * 1024}}
	g.logger = log.DefaultLogger
	g.generatorDB = generatorDB
	g.blockchainDB = chainDB
	g.waitThreshold = -1 // never wait for the previous slot's block
	g.EnableGeneration(address, &PlainKeys{GeneratorKey: pub, GeneratorPrivateKey: priv})

	g.forge()
	if len(cons.handedOn) != 1 {
		t.Fatalf("test setup: forge must hand exactly one block on to consensus, got %d", len(cons.handedOn))
	}
	return cons.handedOn[0].Header
}

func TestD11GeneratorNeverContradictsItself(t *testing.T) {
	generatorDB, err := db.NewInMemoryDB()
	if err != nil {
		t.Fatal(err)
	}
	defer generatorDB.Close()

	h100 := d11ForgeAt(t, generatorDB, 99, 50) // generates at height 100 on a chain with maxHeightPrevoted 50
	h90 := d11ForgeAt(t, generatorDB, 89, 80)  // after switching to a better (maxHeightPrevoted 80), shorter chain
	h91 := d11ForgeAt(t, generatorDB, 90, 80)  // next block on that chain
	t.Logf("generated height %d maxHeightPrevoted %d maxHeightGenerated %d", h100.Height, h100.MaxHeightPrevoted, h100.MaxHeightGenerated)
	t.Logf("generated height %d maxHeightPrevoted %d maxHeightGenerated %d", h90.Height, h90.MaxHeightPrevoted, h90.MaxHeightGenerated)
	t.Logf("generated height %d maxHeightPrevoted %d maxHeightGenerated %d", h91.Height, h91.MaxHeightPrevoted, h91.MaxHeightGenerated)
	if h100.Height != 100 || h90.Height != 90 || h91.Height != 91 || h90.MaxHeightGenerated != 100 {
		t.Fatalf("test setup: unexpected generated headers")
	}
	if h91.MaxHeightGenerated < 100 {
		t.Errorf("header at height 91 reports maxHeightGenerated %d although this generator already generated height 100", h91.MaxHeightGenerated)
	}
	if contradiction.AreDistinctHeadersContradicting(contradiction.NewBFTBlockHeader(h100.Readonly()), contradiction.NewBFTBlockHeader(h91.Readonly())) {
		t.Errorf("the generator's headers at heights 100 and 91 contradict each other")
	}
}
