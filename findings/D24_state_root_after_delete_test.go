package framework

// D24 demonstration (C16): the state root is not a function of the state.  Deleting a key through the
// state batch updates the sparse Merkle tree with the 32-byte hash of the empty string instead of an empty
// value; the tree removes a leaf only for an empty value, so a tombstone leaf stays behind and the root of
// "k1=v1 after k2 was written and deleted" differs from the root of the very same state "k1=v1".
//
// Uses the real stateSMTBatch (as ABIHandler.Commit does) and the real sparse Merkle trie.

import (
	"testing"

	"github.com/LiskHQ/lisk-engine/pkg/collection/bytes"
	"github.com/LiskHQ/lisk-engine/pkg/db"
	"github.com/LiskHQ/lisk-engine/pkg/db/batchdb"
	"github.com/LiskHQ/lisk-engine/pkg/trie/smt"
)

func d24Key(suffix byte) []byte {
	// state db prefix (1 byte) + module id and store prefix (6 bytes) + store key
	return bytes.Join(StateDBPrefixState, []byte{0, 0, 0, 2, 0, 0}, []byte{suffix, 1, 2, 3})
}

// d24Apply commits one block's writes the way ABIHandler.Commit does and returns the new state root.
func d24Apply(t *testing.T, database *db.DB, root []byte, apply func(b *stateSMTBatch)) []byte {
	t.Helper()
	batch := database.NewBatch()
	stateBatch := newStateBatch(batch)
	apply(stateBatch)
	smtDB := batchdb.NewWithPrefix(database, batch, StateDBPrefixTree)
	tree := smt.NewTrie(root, stateTreeKeySize)
	newRoot, err := tree.Update(smtDB, stateBatch.keys, stateBatch.values)
	if err != nil {
		t.Fatal(err)
	}
	database.Write(batch)
	return newRoot
}

func TestD24StateRootIsAFunctionOfTheState(t *testing.T) {
	dbA, err := db.NewInMemoryDB()
	if err != nil {
		t.Fatal(err)
	}
	defer dbA.Close()
	dbB, err := db.NewInMemoryDB()
	if err != nil {
		t.Fatal(err)
	}
	defer dbB.Close()

	// history A: block 1 writes k1 and k2, block 2 deletes k2
	rootA := d24Apply(t, dbA, nil, func(b *stateSMTBatch) {
		b.Set(d24Key(1), []byte("v1"))
		b.Set(d24Key(2), []byte("v2"))
	})
	rootA = d24Apply(t, dbA, rootA, func(b *stateSMTBatch) {
		b.Del(d24Key(2))
	})
	// history B: block 1 writes k1 only
	rootB := d24Apply(t, dbB, nil, func(b *stateSMTBatch) {
		b.Set(d24Key(1), []byte("v1"))
	})
	t.Logf("state {k1=v1} reached by write+delete of k2: root %x", rootA)
	t.Logf("state {k1=v1} reached directly:               root %x", rootB)
	if !bytes.Equal(rootA, rootB) {
		t.Errorf("two equal states have different state roots")
	}
}
