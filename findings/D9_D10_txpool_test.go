package txpool

// Demonstrations for D9 and D10 (place at pkg/txpool/zz_d9_d10_test.go).
// D9: when the pool is over its limit, Add (holding the pool's write lock) evicts through
//     evictUnprocessable()/remove(), which take the same lock again: Add never returns.
// D10: a transaction replaced by a higher-fee one with the same sender and nonce stays in the
//     pool's id index (and fee queue).

import (
	"context"
	"testing"
	"time"

	"github.com/LiskHQ/lisk-engine/pkg/blockchain"
	"github.com/LiskHQ/lisk-engine/pkg/codec"
	"github.com/LiskHQ/lisk-engine/pkg/crypto"
	"github.com/LiskHQ/lisk-engine/pkg/db"
	"github.com/LiskHQ/lisk-engine/pkg/log"
)

func newDemoPool(maxTxs int) *TransactionPool {
	cfg := &TransactionPoolConfig{}
	cfg.SetDefault()
	cfg.MinEntranceFeePriority = 1
	cfg.MaxTransactions = maxTxs
	pool := NewTransactionPool(cfg)
	inMemory, _ := db.NewInMemoryDB()
	chain := blockchain.NewChain(&blockchain.ChainConfig{ChainID: []byte{0, 0, 0, 0}, MaxTransactionsLength: 1024, MaxBlockCache: 20})
	pool.Init(context.Background(), log.DefaultLogger, inMemory, chain, &connMock{}, &abiMock{allowModule: (&sampleMod{}).Name()})
	return pool
}

func demoTx(pk []byte, nonce, fee uint64) *blockchain.Transaction {
	tx := &blockchain.Transaction{
		SenderPublicKey: pk, Module: (&sampleMod{}).Name(), Command: "transfer", Params: crypto.RandomBytes(20),
		Nonce: nonce, Fee: fee, Signatures: []codec.Hex{crypto.RandomBytes(64)},
	}
	tx.Init()
	return tx
}

func TestD9AddReturnsWhenPoolIsFull(t *testing.T) {
	pool := newDemoPool(2)
	done := make(chan struct{})
	go func() {
		for i := 0; i < 5; i++ {
			pool.Add(demoTx(crypto.RandomBytes(32), 0, uint64(10000000000000*(i+1))))
		}
		close(done)
	}()
	select {
	case <-done:
	case <-time.After(5 * time.Second):
		t.Fatal("TransactionPool.Add did not return once the pool was over its limit (lock taken twice)")
	}
	if n := len(pool.GetAll()); n > 3 {
		t.Fatalf("pool holds %d transactions with MaxTransactions=2", n)
	}
}

func TestD10ReplacedTransactionLeavesThePool(t *testing.T) {
	pool := newDemoPool(100)
	pk := crypto.RandomBytes(32)
	first := demoTx(pk, 0, 10000000000000)
	second := demoTx(pk, 0, 20000000000000)
	if !pool.Add(first) || !pool.Add(second) {
		t.Fatal("both transactions should be accepted (the second replaces the first)")
	}
	if _, ok := pool.Get(first.ID); ok {
		t.Fatal("the replaced transaction is still retrievable from the pool")
	}
	if n := len(pool.GetAll()); n != 1 {
		t.Fatalf("pool reports %d transactions for one sender/nonce", n)
	}
}
