package certificate

// D6 demonstration (C06 / C15): the node cannot verify the aggregate commit it assembled itself.
// SingleCommits.Aggregate numbers the aggregation bits by the validators' BLS keys in DESCENDING order
// (AddressKeyPairs.Sort), whereas verification (Executer.verifyAggregateCommit, LIP-0061) lists the keys in
// ascending lexicographical order.  With all validators signing the bit string is all ones and the
// difference is invisible; with 3 of 4 signers the bits select the wrong keys and verification fails.

import (
	"bytes"
	"sort"
	"testing"

	"github.com/LiskHQ/lisk-engine/pkg/blockchain"
	"github.com/LiskHQ/lisk-engine/pkg/codec"
	"github.com/LiskHQ/lisk-engine/pkg/crypto"
)

func TestD6OwnAggregateCommitVerifies(t *testing.T) {
	chainID := []byte{0, 0, 0, 1}
	type val struct {
		addr []byte
		keys *crypto.BLSKeyPair
	}
	vals := []*val{}
	keypairs := AddressKeyPairs{}
	for i := 0; i < 4; i++ {
		pass := "d6 validator passphrase that is long enough " + string(rune('a'+i))
		pub, _, err := crypto.GetKeys(pass)
		if err != nil {
			t.Fatal(err)
		}
		v := &val{addr: crypto.GetAddress(pub), keys: crypto.BLSKeyGen([]byte(pass))}
		vals = append(vals, v)
		keypairs = append(keypairs, &AddressKeyPair{Address: v.addr, BLSKey: v.keys.PublicKey})
	}
	header := &blockchain.BlockHeader{
		ID:             crypto.Hash([]byte("block")),
		Height:         100,
		Timestamp:      123,
		StateRoot:      crypto.Hash([]byte("state")),
		ValidatorsHash: crypto.Hash([]byte("validators")),
	}
	// three of the four validators sign
	commits := SingleCommits{}
	for _, v := range vals[:3] {
		commits = append(commits, NewSingleCommit(header, codec.Lisk32(v.addr), chainID, v.keys.PrivateKey))
	}
	aggCommit, err := commits.Aggregate(keypairs)
	if err != nil {
		t.Fatal(err)
	}
	// verification side, as in Executer.verifyAggregateCommit: keys in ascending lexicographical order
	keys := [][]byte{}
	for _, v := range vals {
		keys = append(keys, v.keys.PublicKey)
	}
	sort.Slice(keys, func(i, j int) bool { return bytes.Compare(keys[i], keys[j]) < 0 })
	cert := NewCertificateFromBlock(header)
	cert.AggregationBits = aggCommit.AggregationBits
	cert.Signature = aggCommit.CertificateSignature
	valid := cert.VerifyAggregateCertificateSignature(keys, []uint64{1, 1, 1, 1}, 3, chainID)
	t.Logf("aggregation bits %08b, verified against the keys in lexicographical order: %v", aggCommit.AggregationBits, valid)
	if !valid {
		t.Errorf("the aggregate commit assembled from 3 of 4 valid single commits does not verify")
	}
}
