package diffdb

// D17 / D25 demonstrations (C12): scans of a staged store must return what the same query returns after
// the staged writes are committed.
//  D17: Range / Iterate apply `limit` to the database scan before staged deletions are filtered out, so a
//       deleted key uses up a slot: database {a, b}, staged Del(a), Range(a..z, limit 1) returns nothing
//       instead of b.
//  D25: Iterate looks the staged entries up with the bare prefix although staged keys carry the store
//       prefix: on a store with prefix {9}, a staged key "ab" is not returned by Iterate("a").

import (
	"testing"

	"github.com/LiskHQ/lisk-engine/pkg/db"
)

func d17Committed(t *testing.T, database *db.DB, prefix []byte, apply func(s *Database)) {
	t.Helper()
	s := New(database, prefix)
	apply(s)
	batch := database.NewBatch()
	s.Commit(batch)
	database.Write(batch)
}

func keysOf(kvs []db.KeyValue) []string {
	out := []string{}
	for _, kv := range kvs {
		out = append(out, string(kv.Key()))
	}
	return out
}

func TestD17LimitedRangeSkipsStagedDeletions(t *testing.T) {
	database, err := db.NewInMemoryDB()
	if err != nil {
		t.Fatal(err)
	}
	defer database.Close()
	prefix := []byte{9}
	d17Committed(t, database, prefix, func(s *Database) {
		s.Set([]byte("a"), []byte("1"))
		s.Set([]byte("b"), []byte("2"))
	})
	staged := New(database, prefix)
	staged.Del([]byte("a"))
	got := keysOf(staged.Range([]byte("a"), []byte("z"), 1, false))
	// the same query after committing the staged delete
	batch := database.NewBatch()
	staged.Commit(batch)
	database.Write(batch)
	want := keysOf(New(database, prefix).Range([]byte("a"), []byte("z"), 1, false))
	t.Logf("staged: %q, after commit: %q", got, want)
	if len(got) != len(want) || (len(got) > 0 && got[0] != want[0]) {
		t.Errorf("Range(a..z, limit 1) on the staged store returned %q, after commit it returns %q", got, want)
	}
}

func TestD25IterateSeesStagedKeysOfAPrefixedStore(t *testing.T) {
	database, err := db.NewInMemoryDB()
	if err != nil {
		t.Fatal(err)
	}
	defer database.Close()
	prefix := []byte{9}
	staged := New(database, prefix)
	staged.Set([]byte("ab"), []byte("1"))
	got := keysOf(staged.Iterate([]byte("a"), -1, false))
	batch := database.NewBatch()
	staged.Commit(batch)
	database.Write(batch)
	want := keysOf(New(database, prefix).Iterate([]byte("a"), -1, false))
	t.Logf("staged: %q, after commit: %q", got, want)
	if len(got) != len(want) || (len(got) > 0 && got[0] != want[0]) {
		t.Errorf("Iterate(a) on the staged store returned %q, after commit it returns %q", got, want)
	}
}
