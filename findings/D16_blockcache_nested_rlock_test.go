package blockchain

// Demonstration for D16 (place at pkg/blockchain/zz_d16_test.go): blockCache.last() takes the read
// lock and then calls getByHeight(), which takes it again. sync.RWMutex forbids recursive read
// locking: if a writer (push/pop) asks for the lock between the two acquisitions, the second RLock
// queues behind the writer and the writer waits for the first RLock - reader and writer deadlock.

import (
	"sync"
	"testing"
	"time"
)

func TestD16LastDoesNotDeadlockWithWriter(t *testing.T) {
	c := newBlockCache(1000)
	mk := func(h uint32) *Block {
		return &Block{Header: &BlockHeader{Height: h, ID: []byte{byte(h), byte(h >> 8), byte(h >> 16), byte(h >> 24)}}}
	}
	if err := c.push(mk(1)); err != nil {
		t.Fatal(err)
	}
	done := make(chan struct{})
	go func() {
		var wg sync.WaitGroup
		stop := make(chan struct{})
		for r := 0; r < 8; r++ {
			wg.Add(1)
			go func() {
				defer wg.Done()
				for {
					select {
					case <-stop:
						return
					default:
						c.last()
					}
				}
			}()
		}
		for i := 0; i < 200000; i++ {
			c.push(mk(uint32(i + 2)))
			c.pop()
		}
		close(stop)
		wg.Wait()
		close(done)
	}()
	select {
	case <-done:
	case <-time.After(20 * time.Second):
		t.Fatal("readers calling last() and a writer calling push()/pop() deadlocked")
	}
}
