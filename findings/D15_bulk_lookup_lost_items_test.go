package blockchain

// Demonstration for D15 (place at pkg/blockchain/zz_d15_test.go): the bulk lookups start one
// goroutine per requested item and all of them append to one shared slice without
// synchronisation. Besides being a data race (go test -race reports it), concurrent appends lose
// items, so "every existing item exactly once" fails.

import (
	"testing"

	"github.com/LiskHQ/lisk-engine/pkg/collection/bytes"
)

func TestD15BulkLookupReturnsEveryExistingItem(t *testing.T) {
	ctx := newDataAccessTestCtx()
	defer ctx.close()
	const n = 200
	ids := make([][]byte, n)
	heights := make([]uint32, n)
	for i := 0; i < n; i++ {
		b := createRandomBlock(uint32(i + 1))
		ids[i] = b.Header.ID
		heights[i] = b.Header.Height
		ctx.database.Set(bytes.Join(DBPrefixToBytes(dbPrefixBlockIDToBlockHeader), b.Header.ID), b.Header.Encode())
		ctx.database.Set(bytes.Join(DBPrefixToBytes(dbPrefixBlockHeightToBlockID), bytes.FromUint32(b.Header.Height)), b.Header.ID)
	}
	dataAccess := NewDataAccess(ctx.database, 1, 1)
	for round := 0; round < 50; round++ {
		headers, err := dataAccess.GetBlockHeaders(ids)
		if err != nil {
			t.Fatal(err)
		}
		if len(headers) != n {
			t.Fatalf("GetBlockHeaders returned %d of %d existing headers (round %d)", len(headers), n, round)
		}
		byHeight, err := dataAccess.GetBlockHeadersByHeights(heights)
		if err != nil {
			t.Fatal(err)
		}
		if len(byHeight) != n {
			t.Fatalf("GetBlockHeadersByHeights returned %d of %d existing headers (round %d)", len(byHeight), n, round)
		}
	}
}
