package smt

// D3 demonstration (C09): smt.Verify panics on a proof whose query key equals the queried key but whose
// bitmap is longer than the key (the bitmap length check is skipped by the `continue` for equal keys):
// a 1-byte key with bitmap {0x01, 0xff} (9 significant bits) makes binaryPath slice 9 of 8 key bits.

import "testing"

func TestD3VerifyMustNotPanicOnOverlongBitmap(t *testing.T) {
	defer func() {
		if r := recover(); r != nil {
			t.Errorf("smt.Verify panicked on an untrusted proof: %v", r)
		}
	}()
	key := []byte{0x01}
	proof := &Proof{
		SiblingHashes: nil,
		Queries:       []*QueryProof{{Key: key, Value: []byte{0x02}, Bitmap: []byte{0x01, 0xff}}},
	}
	ok, err := Verify([][]byte{key}, proof, make([]byte, 32), 1)
	t.Logf("Verify returned %v, %v", ok, err)
	if ok {
		t.Errorf("a malformed proof was accepted")
	}
}
