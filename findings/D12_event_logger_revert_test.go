package statemachine

// Demonstration for D12 (place at pkg/statemachine/zz_d12_test.go): an event logged with Add by a
// command must be discarded when the command fails and the logger snapshot is restored.

import "testing"

func TestD12RevertibleEventIsDiscarded(t *testing.T) {
	l := NewEventLogger(10)
	l.SetDefaultTopic([]byte{1, 2, 3})
	l.CreateSnapshot()
	if err := l.Add("token", "transfer", []byte{1}, nil); err != nil {
		t.Fatal(err)
	}
	if err := l.AddUnrevertible("token", "fee", []byte{2}, nil); err != nil {
		t.Fatal(err)
	}
	l.RestoreSnapshot()
	evs := l.Events()
	if len(evs) != 1 || evs[0].Name != "fee" {
		t.Fatalf("after restore %d events remain (want only the unrevertible one)", len(evs))
	}
}
