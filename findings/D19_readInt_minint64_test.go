package codec

import (
	"math"
	"testing"
)

func TestD19(t *testing.T) {
	w := NewWriter()
	w.writeInt(math.MinInt64)
	r := NewReader(w.Result())
	v, err := r.readInt()
	t.Logf("bytes=%x v=%d err=%v", w.Result(), v, err)
	if v != math.MinInt64 {
		t.Fatalf("round trip of MinInt64 gives %d", v)
	}
}
