package endpoint

// D22 demonstration, endpoint side (C15): the operator hands the generator its block generation history
// (height, maxHeightPrevoted, maxHeightGenerated) through generator_setStatus / generator_updateStatus, e.g. when a
// validator moves to this node.  The endpoint stores it in the generator database under prefix {0} + address; the
// generator keeps and reads its own record under {0}{0} + address (a store opened with the prefix, then a prefix
// view with the same prefix again, pkg/generator/generator.go forge / initBlockHeader / saveGeneratedInfo).
// The record the operator supplies is therefore never found by the generator.

import (
	"context"
	"testing"

	"github.com/LiskHQ/lisk-engine/pkg/codec"
	"github.com/LiskHQ/lisk-engine/pkg/db"
	"github.com/LiskHQ/lisk-engine/pkg/db/diffdb"
	"github.com/LiskHQ/lisk-engine/pkg/generator"
	"github.com/LiskHQ/lisk-engine/pkg/log"
	"github.com/LiskHQ/lisk-engine/pkg/router"
)

type d22Writer struct {
	data interface{}
	err  error
}

func (w *d22Writer) Write(data interface{}) { w.data = data }
func (w *d22Writer) Error(err error)        { w.err = err }

func TestD22SetStatusIsStoredWhereTheGeneratorReadsIt(t *testing.T) {
	generatorDB, err := db.NewInMemoryDB()
	if err != nil {
		t.Fatal(err)
	}
	defer generatorDB.Close()
	address := codec.Lisk32{1, 2, 3, 4, 5, 6, 7, 8, 9, 10, 11, 12, 13, 14, 15, 16, 17, 18, 19, 20}
	ep := &generatorEndpoint{generatorDB: generatorDB}
	w := &d22Writer{}
	params := []byte(`{"address":"` + address.String() + `","height":1000,"maxHeightPreviouslyForged":1000,"maxHeightPrevoted":900}`)
	ep.HandleSetStatus(w, router.NewEndpointRequest(context.Background(), log.DefaultLogger, params))
	if w.err != nil {
		t.Fatalf("setStatus failed: %v", w.err)
	}
	// the generator's own record of what it generated (as opened in Generator.forge and read in initBlockHeader)
	generatorInfoStore := diffdb.New(generatorDB, generator.GeneratorDBPrefixGeneratedInfo).WithPrefix(generator.GeneratorDBPrefixGeneratedInfo)
	encoded, exist := generatorInfoStore.Get(address)
	if !exist {
		t.Fatalf("the status set through the endpoint is not in the generator's record of generated heights")
	}
	info := &generator.GeneratorInfo{}
	if err := info.Decode(encoded); err != nil {
		t.Fatal(err)
	}
	if info.Height != 1000 || info.MaxHeightGenerated != 1000 || info.MaxHeightPrevoted != 900 {
		t.Errorf("generator reads %+v", info)
	}
}
