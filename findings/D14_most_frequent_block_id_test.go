package sync

// Demonstration for D14 (place at pkg/consensus/sync/zz_d14_test.go):
// getMostFrequesntBlockIDNodeInfo must keep the peers whose tip ID is the most common one.
// Before the fix `max` was never updated, so the ID visited last in map order won.

import "testing"

func TestD14MostFrequentBlockID(t *testing.T) {
	a, b := []byte{0xaa}, []byte{0xbb}
	wrong := 0
	for i := 0; i < 200; i++ {
		infos := []*NodeInfo{
			NewNodeInfo(10, 5, 2, a), NewNodeInfo(10, 5, 2, a), NewNodeInfo(10, 5, 2, a), NewNodeInfo(10, 5, 2, b),
		}
		res := getMostFrequesntBlockIDNodeInfo(infos)
		if len(res) != 3 {
			wrong++
		}
	}
	if wrong > 0 {
		t.Fatalf("the minority block ID was selected in %d of 200 runs", wrong)
	}
}
