package framework

// Demonstration for D13 (place at pkg/framework/zz_d13_test.go): restart recovery. The application
// state is one block ahead of the engine (tree state at height 1, engine at height 0), so Init must
// roll the application back through revert(); no execution context exists at that point.

import (
	"context"
	"testing"

	"github.com/LiskHQ/lisk-engine/pkg/collection/bytes"
	"github.com/LiskHQ/lisk-engine/pkg/db"
	"github.com/LiskHQ/lisk-engine/pkg/db/diffdb"
	"github.com/LiskHQ/lisk-engine/pkg/labi"
	"github.com/LiskHQ/lisk-engine/pkg/log"
)

func TestD13InitRecoveryDoesNotPanic(t *testing.T) {
	stateDB, err := db.NewInMemoryDB()
	if err != nil {
		t.Fatal(err)
	}
	moduleDB, _ := db.NewInMemoryDB()
	// application committed block 1: tree state (height 1, empty root) and an empty diff for height 1
	stateDB.Set(bytes.Join(StateDBPrefixTreeState, emptyBytes), bytes.Join(bytes.FromUint32(1), emptyHash))
	stateDB.Set(bytes.Join(StateDBPrefixDiff, bytes.FromUint32(1)), (&diffdb.Diff{}).Encode())
	h := NewABIHandler(context.Background(), nil, log.DefaultLogger, nil, nil, stateDB, moduleDB, nil)
	defer func() {
		if r := recover(); r != nil {
			t.Fatalf("Init panicked during recovery: %v", r)
		}
	}()
	if _, err := h.Init(&labi.InitRequest{ChainID: []byte{0, 0, 0, 0}, LastBlockHeight: 0, LastStateRoot: emptyHash}); err != nil {
		t.Logf("Init returned %v", err)
	}
	cur, ok := stateDB.Get(bytes.Join(StateDBPrefixTreeState, emptyBytes))
	if !ok || bytes.ToUint32(cur[:4]) != 0 {
		t.Fatalf("application state was not rolled back to height 0")
	}
}
