package generator

// D22 supporting check, generator side (C15; uses the harness of D11_generator_info_test.go; passes before and after
// the repair): the real forge takes maxHeightGenerated from the record under {0}{0} + address - the location
// findings/D22_set_status_endpoint_test.go quotes - and from nowhere else.  A record under {0} + address, where
// generator_setStatus stored the operator's declaration before the repair, is ignored: a validator declared to have
// generated up to height 1000 elsewhere produced a header with maxHeightGenerated 0 here, i.e. a header implying
// prevotes for every height up to its own although the validator had already voted up to height 1000.

import (
	"testing"

	"github.com/LiskHQ/lisk-engine/pkg/crypto"
	"github.com/LiskHQ/lisk-engine/pkg/db"
	"github.com/LiskHQ/lisk-engine/pkg/db/diffdb"
)

func d22Forge(t *testing.T, open func(generatorDB *db.DB) *diffdb.Database) uint32 {
	t.Helper()
	generatorDB, err := db.NewInMemoryDB()
	if err != nil {
		t.Fatal(err)
	}
	defer generatorDB.Close()
	pub, _, err := crypto.GetKeys("d11 generator")
	if err != nil {
		t.Fatal(err)
	}
	status := &GeneratorInfo{Height: 1000, MaxHeightPrevoted: 50, MaxHeightGenerated: 1000}
	store := open(generatorDB)
	store.Set(crypto.GetAddress(pub), status.Encode())
	batch := generatorDB.NewBatch()
	store.Commit(batch)
	generatorDB.Write(batch)
	header := d11ForgeAt(t, generatorDB, 499, 50) // the node is at height 499: the validator generates height 500
	return header.MaxHeightGenerated
}

func TestD22ForgeReadsItsRecordUnderTheDoubledPrefixOnly(t *testing.T) {
	own := d22Forge(t, func(generatorDB *db.DB) *diffdb.Database {
		return diffdb.New(generatorDB, GeneratorDBPrefixGeneratedInfo).WithPrefix(GeneratorDBPrefixGeneratedInfo)
	})
	single := d22Forge(t, func(generatorDB *db.DB) *diffdb.Database {
		return diffdb.New(generatorDB, GeneratorDBPrefixGeneratedInfo)
	})
	t.Logf("record under {0}{0}+address: maxHeightGenerated %d; record under {0}+address: maxHeightGenerated %d", own, single)
	if own != 1000 {
		t.Errorf("forge does not report the height recorded under {0}{0}+address: %d", own)
	}
	if single != 0 {
		t.Errorf("forge reads the record under {0}+address after all: %d", single)
	}
}
