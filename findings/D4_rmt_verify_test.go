package rmt

// D4 demonstration (C09): rmt.VerifyProof panics on a proof that needs a sibling hash but carries none:
// calculatePathNodes reads copiedSiblings[0] without checking that a sibling hash is left.

import "testing"

func TestD4VerifyProofMustNotPanicWithoutSiblingHashes(t *testing.T) {
	defer func() {
		if r := recover(); r != nil {
			t.Errorf("rmt.VerifyProof panicked on an untrusted proof: %v", r)
		}
	}()
	proof := &Proof{Size: 4, Idxs: []uint64{4}, SiblingHashes: [][]byte{}}
	ok := VerifyProof([][]byte{make([]byte, 32)}, proof, make([]byte, 32))
	t.Logf("VerifyProof returned %v", ok)
	if ok {
		t.Errorf("a malformed proof was accepted")
	}
}
