package consensus

import (
	"context"
	"testing"
	"time"

	"github.com/LiskHQ/lisk-engine/pkg/blockchain"
	"github.com/LiskHQ/lisk-engine/pkg/codec"
	"github.com/LiskHQ/lisk-engine/pkg/collection/bytes"
	"github.com/LiskHQ/lisk-engine/pkg/consensus/liskbft"
	"github.com/LiskHQ/lisk-engine/pkg/consensus/validator"
	"github.com/LiskHQ/lisk-engine/pkg/crypto"
	"github.com/LiskHQ/lisk-engine/pkg/db"
	"github.com/LiskHQ/lisk-engine/pkg/db/diffdb"
	"github.com/LiskHQ/lisk-engine/pkg/labi"
	"github.com/LiskHQ/lisk-engine/pkg/log"
	"github.com/LiskHQ/lisk-engine/pkg/trie/rmt"
)

// D7 / D8 demonstration (harness derived from the C03 seed demonstration).
//
// A block whose timestamp lies in the SAME slot as the current tip (only a later second
// inside that slot) must be rejected by the Executer and must leave the chain, the
// consensus (BFT) state, the finalized height and the emitted events untouched.
//
// The test drives the real consensus.Executer (process -> verifyBlock -> execute -> AddBlock)
// on top of an in-memory database with a minimal application (ABI) stub.

const (
	d7BlockTime = uint32(10)
	d7BatchSize = 103
)

type d7Keys struct {
	address []byte
	pub     []byte
	priv    []byte
	bls     []byte
}

// d7ABI is a minimal application: no assets, no transactions, never changes validators.
type d7ABI struct {
	labi.ABI   // any other method is not expected to be called
	validators []*labi.Validator
	commits    int
}

func (a *d7ABI) InitStateMachine(req *labi.InitStateMachineRequest) (*labi.InitStateMachineResponse, error) {
	return &labi.InitStateMachineResponse{ContextID: codec.Hex{1}}, nil
}

func (a *d7ABI) InitGenesisState(req *labi.InitGenesisStateRequest) (*labi.InitGenesisStateResponse, error) {
	return &labi.InitGenesisStateResponse{
		Events:               []*blockchain.Event{},
		PreCommitThreshold:   uint64(len(a.validators)),
		CertificateThreshold: uint64(len(a.validators)),
		NextValidators:       a.validators,
	}, nil
}

func (a *d7ABI) VerifyAssets(req *labi.VerifyAssetsRequest) (*labi.VerifyAssetsResponse, error) {
	return &labi.VerifyAssetsResponse{}, nil
}

func (a *d7ABI) BeforeTransactionsExecute(req *labi.BeforeTransactionsExecuteRequest) (*labi.BeforeTransactionsExecuteResponse, error) {
	return &labi.BeforeTransactionsExecuteResponse{Events: []*blockchain.Event{}}, nil
}

func (a *d7ABI) AfterTransactionsExecute(req *labi.AfterTransactionsExecuteRequest) (*labi.AfterTransactionsExecuteResponse, error) {
	return &labi.AfterTransactionsExecuteResponse{Events: []*blockchain.Event{}}, nil
}

func (a *d7ABI) VerifyTransaction(req *labi.VerifyTransactionRequest) (*labi.VerifyTransactionResponse, error) {
	return &labi.VerifyTransactionResponse{Result: labi.TxVerifyResultOk}, nil
}

func (a *d7ABI) ExecuteTransaction(req *labi.ExecuteTransactionRequest) (*labi.ExecuteTransactionResponse, error) {
	return &labi.ExecuteTransactionResponse{Result: labi.TxExecuteResultSuccess, Events: []*blockchain.Event{}}, nil
}

func (a *d7ABI) Commit(req *labi.CommitRequest) (*labi.CommitResponse, error) {
	a.commits++
	return &labi.CommitResponse{}, nil
}

func (a *d7ABI) Clear(req *labi.ClearRequest) (*labi.ClearResponse, error) {
	return &labi.ClearResponse{}, nil
}

type d7Env struct {
	t          *testing.T
	exec       *Executer
	chain      *blockchain.Chain
	database   *db.DB
	abi        *d7ABI
	keys       []*d7Keys
	chainID    []byte
	genesis    *blockchain.Block
	valHash    []byte
	newBlockCh chan interface{}
}

func d7Setup(t *testing.T) *d7Env {
	t.Helper()
	chainID := []byte{0, 0, 0, 9}
	keys := make([]*d7Keys, 4)
	vals := make([]*labi.Validator, len(keys))
	for i := range keys {
		pub, priv, err := crypto.GetKeys("d7 demo validator " + string(rune('a'+i)))
		if err != nil {
			t.Fatal(err)
		}
		bls := crypto.RandomBytes(48)
		keys[i] = &d7Keys{address: crypto.GetAddress(pub), pub: pub, priv: priv, bls: bls}
		vals[i] = &labi.Validator{Address: keys[i].address, BFTWeight: 1, GeneratorKey: pub, BLSKey: bls}
	}
	abi := &d7ABI{validators: vals}

	database, err := db.NewInMemoryDB()
	if err != nil {
		t.Fatal(err)
	}
	t.Cleanup(func() { database.Close() })

	// validatorsHash the genesis block (and every later block) has to carry
	bft := liskbft.NewModule()
	if err := bft.Init(d7BatchSize); err != nil {
		t.Fatal(err)
	}

	emptyRoot := rmt.CalculateRoot([][]byte{})
	eventRoot, err := blockchain.CalculateEventRoot([]*blockchain.Event{})
	if err != nil {
		t.Fatal(err)
	}
	// genesis 100 slots in the past, aligned so that "now" is safely inside a slot
	genesisTimestamp := uint32(time.Now().Unix()) - 100*d7BlockTime
	genesisHeader := &blockchain.BlockHeader{
		Version:          0,
		Timestamp:        genesisTimestamp,
		Height:           0,
		PreviousBlockID:  bytes.Repeat([]byte{0}, 32),
		GeneratorAddress: bytes.Repeat([]byte{0}, 20),
		TransactionRoot:  emptyRoot,
		AssetRoot:        emptyRoot,
		EventRoot:        eventRoot,
		StateRoot:        crypto.Hash([]byte("state-0")),
		AggregateCommit:  &blockchain.AggregateCommit{Height: 0, AggregationBits: []byte{}, CertificateSignature: []byte{}},
		Signature:        []byte{},
	}
	{
		scratchDB, err := db.NewInMemoryDB()
		if err != nil {
			t.Fatal(err)
		}
		defer scratchDB.Close()
		scratch := diffdb.New(scratchDB, blockchain.DBPrefixToBytes(blockchain.DBPrefixState))
		genesisHeader.Init()
		if err := bft.InitGenesisState(genesisHeader.Readonly(), scratch); err != nil {
			t.Fatal(err)
		}
		bftVals, _ := liskbft.GetBFTValidatorAndGenerators(vals)
		if err := bft.API().SetBFTParameters(scratch, uint64(len(vals)), uint64(len(vals)), bftVals); err != nil {
			t.Fatal(err)
		}
		params, err := bft.API().GetBFTParameters(scratch, 1)
		if err != nil {
			t.Fatal(err)
		}
		genesisHeader.ValidatorsHash = params.ValidatorsHash()
	}
	genesisHeader.Init()
	genesis := &blockchain.Block{Header: genesisHeader, Transactions: []*blockchain.Transaction{}, Assets: []*blockchain.BlockAsset{}}

	chain := blockchain.NewChain(&blockchain.ChainConfig{
		ChainID:               chainID,
		MaxTransactionsLength: 15 * 1024,
		MaxBlockCache:         515,
		KeepEventsForHeights:  -1,
	})
	chain.Init(genesis, database)

	exec := NewExecuter(&ExecuterConfig{
		CTX:       context.Background(),
		ABI:       abi,
		Chain:     chain,
		Conn:      nil, // nothing is published in this test (blocks are "received from a peer")
		BlockTime: d7BlockTime,
		BatchSize: d7BatchSize,
	})
	// Same steps as Executer.Init without the p2p registration.
	exec.ctx = context.Background()
	exec.logger = log.DefaultLogger
	exec.database = database
	if err := exec.liskBFT.Init(exec.batchSize); err != nil {
		t.Fatal(err)
	}
	if err := exec.processGenesisBlock(&ProcessContext{ctx: exec.ctx, block: genesis}); err != nil {
		t.Fatalf("genesis block must be processed: %v", err)
	}
	if err := chain.PrepareCache(); err != nil {
		t.Fatal(err)
	}
	exec.blockSlot = validator.NewBlockSlot(genesis.Header.Timestamp, exec.blockTime)

	newBlockCh := make(chan interface{}, 100)
	exec.events.On(EventBlockNew, newBlockCh)

	return &d7Env{
		t:          t,
		exec:       exec,
		chain:      chain,
		database:   database,
		abi:        abi,
		keys:       keys,
		chainID:    chainID,
		genesis:    genesis,
		valHash:    genesisHeader.ValidatorsHash,
		newBlockCh: newBlockCh,
	}
}

// generatorAt returns the key material of the validator assigned to the slot of timestamp,
// according to the node's own consensus state.
func (e *d7Env) generatorAt(height, timestamp uint32) *d7Keys {
	e.t.Helper()
	store := diffdb.New(e.database, blockchain.DBPrefixToBytes(blockchain.DBPrefixState))
	gens, err := e.exec.GetGeneratorKeys(store, height)
	if err != nil {
		e.t.Fatal(err)
	}
	gen, err := gens.AtTimestamp(e.exec.blockSlot, timestamp)
	if err != nil {
		e.t.Fatal(err)
	}
	for _, k := range e.keys {
		if bytes.Equal(k.address, gen.Address()) {
			return k
		}
	}
	e.t.Fatal("generator not found")
	return nil
}

// nextBlock builds a block on top of the current tip that is valid in every respect
// for the given timestamp: it is generated and signed by the validator assigned to the
// slot containing that timestamp.
func (e *d7Env) nextBlock(timestamp uint32) *blockchain.Block {
	e.t.Helper()
	last := e.chain.LastBlock().Header
	height := last.Height + 1
	gen := e.generatorAt(height, timestamp)
	store := diffdb.New(e.database, blockchain.DBPrefixToBytes(blockchain.DBPrefixState))
	maxHeightPrevoted, _, maxHeightCertified, err := e.exec.GetBFTHeights(store)
	if err != nil {
		e.t.Fatal(err)
	}
	// the honest value: height of the last block this generator produced on this chain
	maxHeightGenerated := uint32(0)
	for h := last.Height; h > 0; h-- {
		hd, err := e.chain.DataAccess().GetBlockHeaderByHeight(h)
		if err != nil {
			e.t.Fatal(err)
		}
		if bytes.Equal(hd.GeneratorAddress, gen.address) {
			maxHeightGenerated = h
			break
		}
	}
	emptyRoot := rmt.CalculateRoot([][]byte{})
	eventRoot, err := blockchain.CalculateEventRoot([]*blockchain.Event{})
	if err != nil {
		e.t.Fatal(err)
	}
	header := &blockchain.BlockHeader{
		Version:            2,
		Timestamp:          timestamp,
		Height:             height,
		PreviousBlockID:    last.ID,
		GeneratorAddress:   gen.address,
		TransactionRoot:    emptyRoot,
		AssetRoot:          emptyRoot,
		EventRoot:          eventRoot,
		StateRoot:          crypto.Hash(bytes.FromUint32(height)),
		MaxHeightPrevoted:  maxHeightPrevoted,
		MaxHeightGenerated: maxHeightGenerated,
		ValidatorsHash:     e.valHash,
		AggregateCommit:    &blockchain.AggregateCommit{Height: maxHeightCertified, AggregationBits: []byte{}, CertificateSignature: []byte{}},
	}
	header.Sign(e.chainID, gen.priv)
	return &blockchain.Block{Header: header, Transactions: []*blockchain.Transaction{}, Assets: []*blockchain.BlockAsset{}}
}

type d7Snapshot struct {
	tipID           []byte
	tipHeight       uint32
	finalizedHeight uint32
	bftState        []byte
	commits         int
	newBlockEvents  int
}

func (e *d7Env) snapshot() *d7Snapshot {
	e.t.Helper()
	finalized, err := e.chain.DataAccess().GetFinalizedHeight()
	if err != nil {
		e.t.Fatal(err)
	}
	state := []byte{}
	for _, kv := range e.database.Iterate(blockchain.DBPrefixToBytes(blockchain.DBPrefixState), -1, false) {
		state = bytes.Join(state, kv.Key(), kv.Value())
	}
	return &d7Snapshot{
		tipID:           bytes.Copy(e.chain.LastBlock().Header.ID),
		tipHeight:       e.chain.LastBlock().Header.Height,
		finalizedHeight: finalized,
		bftState:        state,
		commits:         e.abi.commits,
		newBlockEvents:  len(e.newBlockCh),
	}
}

// receive feeds a block into the Executer exactly as if it was received from a peer.
func (e *d7Env) receive(block *blockchain.Block) error {
	decoded, err := blockchain.NewBlock(block.Encode())
	if err != nil {
		e.t.Fatal(err)
	}
	return e.exec.process(&ProcessContext{ctx: context.Background(), block: decoded, peerID: "peer-1"})
}


// D7: the event root of the header is never compared with the events of the execution.
func TestD7WrongEventRootIsRejected(t *testing.T) {
	env := d7Setup(t)
	slot := env.exec.blockSlot
	block1 := env.nextBlock(slot.GetSlotTime(50))
	if err := env.receive(block1); err != nil {
		t.Fatalf("valid block 1 must be accepted: %v", err)
	}
	before := env.snapshot()
	block2 := env.nextBlock(slot.GetSlotTime(60))
	block2.Header.EventRoot = crypto.Hash([]byte("not the root of the (empty) event list"))
	gen := env.generatorAt(block2.Header.Height, block2.Header.Timestamp)
	block2.Header.Sign(env.chainID, gen.priv)
	err := env.receive(block2)
	after := env.snapshot()
	t.Logf("processing the block with a wrong event root returned: %v", err)
	if err == nil {
		t.Errorf("block with an event root that does not match the execution events was accepted")
	}
	if after.tipHeight != before.tipHeight {
		t.Errorf("chain changed by an invalid block: tip height %d -> %d", before.tipHeight, after.tipHeight)
	}
}

// D8: transactions of a received block are never statically validated.
func TestD8StaticallyInvalidTransactionIsRejected(t *testing.T) {
	env := d7Setup(t)
	slot := env.exec.blockSlot
	before := env.snapshot()
	block1 := env.nextBlock(slot.GetSlotTime(50))
	tx := &blockchain.Transaction{Module: "!! not alphanumeric !!", Command: "", SenderPublicKey: []byte{1, 2, 3}, Params: []byte{}, Signatures: []codec.Hex{}}
	decodedTx, err := blockchain.NewTransaction(tx.Encode())
	if err != nil {
		t.Fatal(err)
	}
	if decodedTx.Validate() == nil {
		t.Fatalf("test setup: transaction must be statically invalid")
	}
	block1.Transactions = []*blockchain.Transaction{decodedTx}
	block1.Header.TransactionRoot = rmt.CalculateRoot([][]byte{decodedTx.ID})
	gen := env.generatorAt(block1.Header.Height, block1.Header.Timestamp)
	block1.Header.Sign(env.chainID, gen.priv)
	err = env.receive(block1)
	after := env.snapshot()
	t.Logf("processing the block with a statically invalid transaction returned: %v", err)
	if err == nil {
		t.Errorf("block carrying a statically invalid transaction (module %q, 3-byte public key, no signature) was accepted", tx.Module)
	}
	if after.tipHeight != before.tipHeight {
		t.Errorf("chain changed by an invalid block: tip height %d -> %d", before.tipHeight, after.tipHeight)
	}
}
