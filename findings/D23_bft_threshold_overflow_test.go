package liskbft

// D23 demonstration (C01/C02): SetBFTParameters computes the aggregate BFT weight and the prevote
// threshold floor(2W/3)+1 in wrapping uint64 arithmetic.
//  (a) The sum of the weights wraps: validators with weights 2^63 and 2^63+3 have aggregate weight
//      2^64+3, the code sees 3, accepts precommit/certificate thresholds of 2 and stores a prevote
//      threshold of 3 - every single validator exceeds all thresholds alone.
//  (b) W*2 wraps although W itself fits: weights 2^63 and 2 (W = 2^63+2) give the stored prevote
//      threshold (2W mod 2^64)/3+1 = 2 instead of floor(2W/3)+1 = 6148914691236517207 - the validator
//      holding 2 of 2^63+2 weight units prevotes every block to "more than two thirds" alone.

import (
	"testing"

	"github.com/LiskHQ/lisk-engine/pkg/blockchain"
	"github.com/LiskHQ/lisk-engine/pkg/collection/bytes"
	"github.com/LiskHQ/lisk-engine/pkg/crypto"
	"github.com/LiskHQ/lisk-engine/pkg/db"
	"github.com/LiskHQ/lisk-engine/pkg/db/diffdb"
)

func d23Store(t *testing.T, bft *Module) *diffdb.Database {
	t.Helper()
	database, err := db.NewInMemoryDB()
	if err != nil {
		t.Fatal(err)
	}
	t.Cleanup(func() { database.Close() })
	store := diffdb.New(database, []byte{0})
	genesis := &blockchain.BlockHeader{
		PreviousBlockID:  bytes.Repeat([]byte{0}, 32),
		GeneratorAddress: bytes.Repeat([]byte{0}, 20),
		AggregateCommit:  &blockchain.AggregateCommit{AggregationBits: []byte{}, CertificateSignature: []byte{}},
		Signature:        []byte{},
	}
	genesis.Init()
	if err := bft.InitGenesisState(genesis.Readonly(), store); err != nil {
		t.Fatal(err)
	}
	return store
}

func d23Validators(weights ...uint64) BFTValidators {
	vs := BFTValidators{}
	for i, w := range weights {
		vs = append(vs, NewValidator(crypto.Hash([]byte{byte(i)})[:20], w, crypto.RandomBytes(48)))
	}
	return vs
}

func TestD23AggregateWeightSumWraps(t *testing.T) {
	bft := NewModule()
	if err := bft.Init(103); err != nil {
		t.Fatal(err)
	}
	store := d23Store(t, bft)
	// real aggregate weight 2^64+3; one third of it is about 6.1e18
	err := bft.API().SetBFTParameters(store, 2, 2, d23Validators(1<<63, 1<<63+3))
	t.Logf("SetBFTParameters(precommitThreshold 2, certificateThreshold 2, weights 2^63 and 2^63+3) returned: %v", err)
	if err == nil {
		params, perr := bft.API().GetBFTParameters(store, 1)
		if perr != nil {
			t.Fatal(perr)
		}
		t.Errorf("thresholds of 2 were accepted for an aggregate weight of 2^64+3 (must be at least a third of it); stored prevote threshold %d", params.PrevoteThreshold())
	}
}

func TestD23PrevoteThresholdDoublingWraps(t *testing.T) {
	bft := NewModule()
	if err := bft.Init(103); err != nil {
		t.Fatal(err)
	}
	store := d23Store(t, bft)
	w := uint64(1<<63 + 2)
	if err := bft.API().SetBFTParameters(store, w/3+1, w/3+1, d23Validators(1<<63, 2)); err != nil {
		t.Fatalf("test setup: valid parameters must be accepted: %v", err)
	}
	params, err := bft.API().GetBFTParameters(store, 1)
	if err != nil {
		t.Fatal(err)
	}
	want := w/3*2 + (w%3)*2/3 + 1 // floor(2W/3)+1
	t.Logf("aggregate weight %d: stored prevote threshold %d, floor(2W/3)+1 = %d", w, params.PrevoteThreshold(), want)
	if params.PrevoteThreshold() != want {
		t.Errorf("prevote threshold %d is not floor(2W/3)+1 = %d", params.PrevoteThreshold(), want)
	}
}
